"""C19 — concurrent runs, scans and discards in one session; race detector."""
import sys, os, re
sys.path.insert(0, os.path.dirname(os.path.dirname(os.path.abspath(__file__))))
import progen

PID = "C19"
EXTRA_TARGETS = ("BS.Properties.C19w",)
PARALLEL = {"C19": 6}
TIMEOUT = {"quick": 1500, "thorough": 7000}
RULE = ("histories of 2..4 phases; in a phase 2..5 items run concurrently (started together): runs of generated programs (1..5 "
        "nodes), half of them consuming one or two results of earlier phases — so that several runs need the same tasks, which "
        "after a discard must be recomputed by one of them and awaited by the others —, scans of earlier results, discards; local "
        "executor and bigmachine testsystem, GOMAXPROCS in {1,2,4,16}; every run is judged like C01 on the results' first values; "
        "in addition a race-detector build of the harness (go build -race) runs a sample of the cases (quick: 24, thorough: 600): "
        "any `DATA RACE` report is a violation; non-trivial = two runs of one phase consume the same result")
TRUST = ["the Go race detector reports the races that occur in the executions it observes (no false positives)"]
ASSUMPTIONS = ["goroutine schedules are sampled (GOMAXPROCS, start together), not enumerated; the interleavings of the runner "
               "election are covered for all schedules by BS.Elect.reachable_inv",
               "a run racing with a discard of its own arguments may fail with an error (as C12)"]
CONFIGS = ["local", "local P1", "bm M2 P4", "bm M1 P3", "bm M4 P4", "bm M2 P4 MC"]


def gen_prog(r, shards, ordered, avail, force=None):
    import props.c12 as c12
    if force is not None:
        for _ in range(30):
            p, sh, od = c12.gen_prog(r, shards, ordered, [force])
            if re.search(r"\bR%d\b" % force, p):
                return p, sh, od
    return c12.gen_prog(r, shards, ordered, avail)


def directed():
    """a run over results that depend on each other along paths of different lengths, started together with unrelated runs that
    keep the machines which already know those results busy: its tasks land on fresh machines, which must be told about the
    results' invocations in dependency order"""
    rows = "1:1 2:2 3:3 4:4 5:5"
    busy = "run N0=lines 2 2000 ; N1=map N0 mod5 ; N2=reduce N1 add ; OUT N2"
    for cfg in ("bm M1 P2", "bm M1 P3", "bm M1 P4", "bm M2 P4"):
        for depth in (2, 3):
            chain = ["run N0=const 1 %s ; OUT N0" % rows] + ["run N0=map R%d inc ; OUT N0" % d for d in range(depth)]
            for final in ("run N0=cogroup R0 R%d ; N1=reduce N0 add ; OUT N1" % depth,
                          "run N0=map R%d id ; N1=map R0 id ; N2=cogroup N0 N1 ; OUT N2" % depth):
                for nbusy in (1, 2):
                    yield "%s GMP4 ;; %s ;; %s" % (cfg, " ;; ".join(chain), " || ".join([busy] * nbusy + [final]))


def directed_slow_discard():
    """a discard whose worker RPC is served late (slow network, nothing lost), racing with runs that need the discarded result;
    the racing runs may fail (C12) — the runs of the *next* phase, which race with nothing, must return the rows"""
    srcs = ["run N0=const 2 1:1 2:2 3:3 4:4 5:5 6:6 ; OUT N0",
            "run N0=lines 3 600 ; N1=map N0 mod5 ; N2=reduce N1 add ; OUT N2"]
    uses = ["run N0=map R0 inc ; OUT N0", "run N0=map R0 id ; N1=reduce N0 add ; OUT N1"]
    for cfg in ("bm M1 P2", "bm M2 P4", "bm M1 P4"):
        for ms in (150, 400):
            for src in srcs:
                for nrace in (1, 2):
                    race = " || ".join(["discard 0"] + [uses[i % 2] for i in range(nrace)])
                    yield "%s DLY%d:Worker.Discard GMP4 ;; %s ;; %s ;; %s || scan 0" % (cfg, ms, src, race, uses[0])
                    yield "%s DLY%d:Worker.Discard GMP4 ;; %s ;; %s ;; %s ;; %s" % (cfg, ms, src, race, uses[1], uses[0])


def gen(r, tier):
    for c in directed():
        yield c
    for c in directed_slow_discard():
        yield c
    n = 150 if tier == "quick" else 3000
    for _ in range(n):
        cfg = "%s CH%d GMP%d" % (r.choice(CONFIGS), r.choice([2, 128, 128]), r.choice([1, 2, 4, 16]))
        shards, ordered = [], []
        phases = []
        for ph in range(r.rng(2, 4)):
            items, new = [], []
            avail = list(range(len(shards)))
            shared = avail[r.below(len(avail))] if avail and r.chance(2, 3) else None
            for _ in range(r.rng(2, 5)):
                k = r.below(100)
                if not avail or k < 55:
                    p, sh, od = gen_prog(r, shards, ordered, avail, force=shared if r.chance(2, 3) else None)
                    items.append("run " + p); new.append((sh, od))
                elif k < 80:
                    items.append("scan %d" % avail[r.below(len(avail))])
                else:
                    items.append("discard %d" % avail[r.below(len(avail))])
            for sh, od in new:
                shards.append(sh); ordered.append(od)
            phases.append(" || ".join(items))
        yield cfg + " ;; " + " ;; ".join(phases)


def nontrivial(case, obs):
    for ph in case.split(" ;; ")[1:]:
        used = re.findall(r"\bR(\d+)\b", " ".join(i for i in ph.split(" || ") if i.startswith("run")))
        if len(used) != len(set(used)):
            return True
    return False


def shrink_candidates(case):
    parts = case.split(" ;; ")
    if len(parts) > 2:
        yield " ;; ".join(parts[:-1])


def custom(chk, wc, tier, seed):
    """the same kind of cases under the race detector"""
    import vlib, check
    try:
        racebin = wc.build_harness(race=True)
    except vlib.BuildError as e:
        chk.violation("tie-T1-broken", {"correspondence": "race-detector build of the harness", "error": str(e)[-2000:]}, found_input=False)
        return
    r = vlib.SplitMix(seed ^ 0xC19).fork()
    cases = list(gen(r, tier))[: (24 if tier == "quick" else 600)]
    chunks = [cases[i::4] for i in range(4)]
    from concurrent.futures import ThreadPoolExecutor

    def one(chunk):
        inp = "".join("%d %s\n" % (i, c) for i, c in enumerate(chunk))
        try:
            p = wc.run_harness(["run", "C19"], inp, timeout=3000, binary=racebin, extra_env={"GORACE": "halt_on_error=0"})
            return chunk, p.stdout, p.stderr
        except Exception as e:
            return chunk, "", "timeout: %r" % (e,)
    with ThreadPoolExecutor(4) as ex:
        res = list(ex.map(one, chunks))
    nrace = 0
    for chunk, out, err in res:
        chk.cov["evaluations"] += len(chunk)
        if "DATA RACE" in err:
            nrace += 1
            i = err.index("WARNING: DATA RACE")
            report = err[i:i + 3500]
            frames = [l.strip() for l in report.split("\n") if "bigslice/" in l and "zz_bsharness" not in l][:6]
            chk.violation("impl-counterexample",
                          {"case": chunk[0] if chunk else "", "cases_in_process": len(chunk),
                           "oracle": "the race detector reported a data race: " + " | ".join(frames), "race_report": report,
                           "replay_cmd": "python3 tools/check.py C19 (the race build runs the listed cases)"}, found_input=True)
        elif err.startswith("timeout"):
            chk.violation("impl-counterexample", {"case": chunk[0] if chunk else "", "oracle": "the race build did not finish: " + err[:200]}, found_input=True)
    chk.cov.setdefault("notes", []).append("race-detector run: %d cases in %d processes, %d with reports" % (len(cases), len(chunks), nrace))


def t2(chk, wc, tier, seed):
    """the runner election of Eval, regenerated from exec/eval.go: the state test and the INIT→WAITING transition happen in
    one critical section of the task's lock (what BS.Elect's atomic `elect` step stands for), LOST is reset to INIT in that
    section, and exactly the elected evaluator calls executor.Run."""
    import re
    import vlib
    src = open(wc.repo + "/exec/eval.go").read()
    try:
        i = src.index("for _, task := range state.Runnable() {")
        body = src[i:src.index("go func(task *Task) {", i)]
    except ValueError:
        body = ""
    pos = {k: body.find(k) for k in ("task.Lock()", "task.state == TaskLost", "task.state = TaskInit", "runner := task.state == TaskInit",
                                      "task.state = TaskWaiting", "go executor.Run(task)", "task.Unlock()")}
    order_ok = (0 <= pos["task.Lock()"] < pos["task.state == TaskLost"] < pos["task.state = TaskInit"]
                < pos["runner := task.state == TaskInit"] < pos["task.state = TaskWaiting"] < pos["go executor.Run(task)"]) and pos["task.Unlock()"] < 0
    guarded = re.search(r"if runner \{\n(?:\t+.*\n)*?\t+go executor\.Run\(task\)", body) is not None
    gen = "def electAtomicG : Bool := %s\ndef runOnlyByRunnerG : Bool := %s" % ("true" if order_ok else "false", "true" if guarded else "false")
    ties = [("election_atomic_tie", "theorem election_atomic_tie : electAtomicG = true ∧ runOnlyByRunnerG = true := by decide",
             "exec/eval.go Eval: lock, LOST→INIT, runner := (state == INIT), INIT→WAITING, executor.Run only if runner — without unlocking in between")]
    # the wake-up protocol of a task (exec/task.go): Wait assigns the shared channel only when it creates it, Broadcast closes
    # the current channel and forgets it (the two steps BS.Wake.step models; `abandon` leaves the channel alone)
    tsrc = open(wc.repo + "/exec/task.go").read()
    def fbody(sig):
        try:
            i = tsrc.index(sig)
            return tsrc[i:tsrc.index("\n}\n", i)]
        except ValueError:
            return ""
    wait, bc = fbody("func (t *Task) Wait("), fbody("func (t *Task) Broadcast(")
    wait_ok = (len(re.findall(r"t\.waitc\s*=[^=]", wait)) == 1 and "t.waitc = make(chan struct{})" in wait
               and re.search(r"if t\.waitc == nil \{\s*t\.waitc = make\(chan struct\{\}\)", wait) is not None
               and wait.find("waitc := t.waitc") < wait.find("t.Unlock()") < wait.find("select {") < wait.find("t.Lock()"))
    bc_ok = re.search(r"if t\.waitc != nil \{\s*close\(t\.waitc\)\s*t\.waitc = nil\s*\}", bc) is not None
    gen += "\ndef waitTouchesChannelOnlyToCreateG : Bool := %s\ndef broadcastClosesAndForgetsG : Bool := %s" % (
        "true" if wait_ok else "false", "true" if bc_ok else "false")
    ties.append(("wake_protocol_tie",
                 "theorem wake_protocol_tie : waitTouchesChannelOnlyToCreateG = true ∧ broadcastClosesAndForgetsG = true := by decide",
                 "exec/task.go (*Task).Wait / Broadcast: the steps of BS.Wake (no_lost_wakeup)"))
    vlib.t2_check(chk, wc, "C19", ["BS.Model.Elect", "BS.Model.Wake"], gen, ties)
