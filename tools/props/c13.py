"""C13 — caching: histories of runs of a program with Cache/CachePartial/ReadCache nodes, removed shard files and failing
file operations, against BS.Cache."""
PID = "C13"
SUBS = ["C13", "C13wt"]
PARALLEL = {"C13": 8}
CASE_LIMIT = {"C13wt": 45}
EXTRA_TARGETS = ("BS.Properties.C13w",)
TIMEOUT = {"quick": 1500, "thorough": 7000}
RULE = ("programs: a source (1..4 shards, 0..14 rows) followed by 2..6 operators drawn from counted Map, Filter, Flatmap, Reduce, "
        "Reshuffle, Reshard, materialised Map, Cache, CachePartial (cache operators at the head of a task — after a shuffle or a "
        "materialised slice —, in the middle, before and after shuffles), optionally "
        "under a final Head; histories of 2..6 operations: run, run again, remove a subset of shard files, run with the k-th file "
        "operation of the cache layer failing (k over the operations of a run), a second program reading a cache with ReadCache; "
        "local executor and bigmachine testsystem; after every operation every cache file present is decoded and compared with "
        "the shard it stands for; for complete failure-free runs the call counts of the counted Maps equal the rows of the shards "
        "not served from the cache, and every computed shard has been written; non-trivial = a run after files exist or a failing run")
TRUST = ["cache files are decoded by the harness with the same zstd + sliceio decoder the cache reader uses",
         "the fault-injecting file implementation fails exactly the k-th operation (Stat/Create/Open/Write/Read/Close) of a run"]
ASSUMPTIONS = ["a cache name is used by one cache operator of one program within a case", "Head is the last operator when present"]
CONFIGS = ["local", "local", "bm M2 P2", "bm M4 P4", "bm M1 P3 MC"]


def gen_prog(r):
    nsh = r.rng(1, 4)
    n = r.choice([0, 1, 3, 5, 8, 14])
    rows = " ".join("%d:%d" % (r.below(6), r.rng(0, 20)) for _ in range(n))
    stmts = ["N0=" + r.choice(["const %d %s" % (nsh, rows), "reader %d %d %s" % (nsh, r.rng(1, 3) + (10 if r.chance(1, 2) else 0), rows)])]
    caches = []      # (name, nshard)
    ncache = 0
    for i in range(r.rng(2, 6)):
        prev = "N%d" % (len(stmts) - 1)
        k = r.below(100)
        if k < 25:
            op = "mapc %s %s" % (prev, r.choice(["inc", "swap", "mod3", "id"]))
        elif k < 33:
            op = "filter %s %s" % (prev, r.choice(["kmod3", "vodd", "all"]))
        elif k < 40:
            op = "flatmap %s two" % prev
        elif k < 50:
            op = "reduce %s add" % prev
        elif k < 56:
            op = "reshuffle %s" % prev
        elif k < 61:
            op = "mapm %s id" % prev      # a materialised slice: what follows starts a new task
        elif k < 64:
            nsh2 = r.rng(1, 4)
            op = "reshard %s %d" % (prev, nsh2)
            nsh = nsh2
        elif ncache < 3:
            name = "abc"[ncache]
            ncache += 1
            op = "%s %s %s" % (r.choice(["cache", "cachepartial"]), prev, name)
            caches.append((name, nsh))
        else:
            op = "mapc %s id" % prev
        stmts.append("N%d=%s" % (len(stmts), op))
    if not caches:
        prev = "N%d" % (len(stmts) - 1)
        stmts.append("N%d=%s %s a" % (len(stmts), r.choice(["cache", "cachepartial"]), prev))
        caches.append(("a", nsh))
    if r.chance(1, 3):
        stmts.append("N%d=mapc N%d inc" % (len(stmts), len(stmts) - 1))
    ordered_ok = not any(w in " ".join(stmts) for w in ("reshuffle", "reshard"))
    if ordered_ok and r.chance(1, 6):
        stmts.append("N%d=head N%d %d" % (len(stmts), len(stmts) - 1, r.choice([0, 1, 2])))
    return " ; ".join(stmts) + " ; OUT N%d" % (len(stmts) - 1), caches


def directed():
    """a failing or interrupted computation directly under a cache operator, at every row position"""
    rows = "1:1 2:2 3:3 4:4 5:5 6:6 7:7"
    for cfg in ("local CH2", "bm M2 P2 CH2", "local CH128"):
        for kind in ("cache", "cachepartial"):
            p = "N0=reader 2 2 %s ; N1=%s N0 a ; N2=mapc N1 inc ; OUT N2" % (rows, kind)
            for mode in ("err", "tmp", "panic"):
                for once in ("once", "always"):
                    for k in range(0, 6):
                        yield "%s ;; runx FAULT N0 %s %d %s ; %s ;; run %s ;; run %s" % (cfg, mode, k, once, p, p, p)
            for k in range(1, 45, 2):
                yield "%s ;; runfailp %d %s ;; run %s" % (cfg, k, p, p)
            for k in range(1, 30, 3):
                yield "%s ;; runfailw %d %s ;; run %s" % (cfg, k, p, p)
            # partially consumed: Head stops reading before the end of the shard
            for h in (0, 1, 2, 3, 4):
                ph = "N0=reader 2 2 %s ; N1=%s N0 a ; N2=head N1 %d ; OUT N2" % (rows, kind, h)
                yield "%s ;; run %s ;; run %s ;; run %s" % (cfg, ph, p, ph)


def directed_head():
    """a cache operator that is the first operator of its task: directly over a materialised slice"""
    rows = "1:1 2:2 3:3 4:4 5:5 6:6 7:7"
    for cfg in ("local CH2", "bm M2 P2 CH128", "bm M1 P3 CH2"):
        for kind in ("cache", "cachepartial"):
            for nsh in (1, 3):
                p = "N0=const %d %s ; N1=mapc N0 inc ; N2=mapm N1 id ; N3=%s N2 a ; N4=mapc N3 inc ; OUT N4" % (nsh, rows, kind)
                q = "N0=readcache %d a ; N1=mapc N0 id ; OUT N1" % nsh
                yield "%s ;; run %s ;; run %s ;; run %s" % (cfg, p, p, q)
                yield "%s ;; run %s ;; rm a 0 ;; run %s" % (cfg, p, p)


def directed_partial_over_shuffle():
    """CachePartial over the consumer of a shuffle, with counted Maps upstream: after some (not the first) of its shard files
    is removed, the upstream runs again and what it executed must be what the result's scope reports"""
    rows = "1:1 2:2 3:3 4:4 5:5 6:6 7:7 8:8 9:9"
    for cfg in ("local CH2", "bm M2 P2 CH128", "bm M1 P3 CH2"):
        for sh in ("reduce N1 add", "reshuffle N1", "reshard N1 3"):
            p = "N0=const 3 %s ; N1=mapc N0 inc ; N2=%s ; N3=cachepartial N2 a ; N4=mapc N3 id ; OUT N4" % (rows, sh)
            yield "%s ;; run %s ;; rm a 1 ;; run %s ;; rm a 2 ;; rm a 1 ;; run %s ;; rm a 0 ;; run %s" % (cfg, p, p, p, p)


def directed_many_shards():
    """more shards than the cache layer looks up one by one (it batches the lookups beyond 10 per CPU): the shards next to a
    missing one must still be served from their files"""
    for n in (170, 330):
        rows = " ".join("%d:%d" % (i, i) for i in range(n))
        p = "N0=const %d %s ; N1=mapc N0 inc ; N2=cachepartial N1 a ; OUT N2" % (n, rows)
        yield "local CH128 ;; run %s ;; rm a 0 ;; run %s ;; rm a 7 ;; rm a 8 ;; rm a %d ;; run %s" % (p, p, n - 1, p)


def gen_main(r, tier):
    for c in directed_partial_over_shuffle():
        yield c
    for c in directed_many_shards():
        yield c
    alld = list(directed())
    if tier == "quick":
        alld = [c for c in alld if r.below(3) == 0]
    for c in list(directed_head()) + alld:
        yield c
    n = 300 if tier == "quick" else 6000
    for _ in range(n):
        cfg = "%s CH%d" % (r.choice(CONFIGS), r.choice([1, 2, 128, 128]))
        p, caches = gen_prog(r)
        ops = []
        for _ in range(r.rng(2, 6)):
            k = r.below(100)
            if k < 45:
                ops.append("run " + p)
            elif k < 65:
                name, nsh = caches[r.below(len(caches))]
                ops.append("rm %s %d" % (name, r.below(nsh)))
            elif k < 80:
                ops.append("%s %d %s" % (r.choice(["runfail", "runfail", "runfailp", "runfailw"]), r.rng(1, 40), p))
            elif k < 90:
                # a user function upstream of the caches fails (persistently or once) at some row
                node = "N0" if p.startswith("N0=reader") and r.chance(1, 2) else None
                if node:
                    ops.append("runx FAULT N0 %s %d %s ; %s" % (r.choice(["err", "tmp", "panic"]), r.below(6), r.choice(["once", "always"]), p))
                else:
                    maps = [s.split("=")[0] for s in p.split(" ; ") if "=mapc " in s]
                    if maps:
                        ops.append("runx FAULT %s panic %d %s ; %s" % (r.choice(maps), r.below(12), r.choice(["once", "always"]), p))
                    else:
                        ops.append("run " + p)
            else:
                name, nsh = caches[r.below(len(caches))]
                ops.append("run N0=readcache %d %s ; N1=mapc N0 id ; OUT N1" % (nsh, name))
        yield cfg + " ;; " + " ;; ".join(ops)


def gen_wt(r, tier):
    """the write-through reader of one shard, call by call: scripts of upstream results (0..6 calls of 0..9 rows, empty reads,
    rows together with EOF, an error at any call), a file operation that fails once (every ordinal) or from some point on
    (any kind / writes / the close), consumers that abandon the reader after k calls"""
    def script():
        n = r.rng(0, 6)
        toks = []
        for i in range(n):
            last = i == n - 1
            st = "m"
            if last:
                st = r.choice(["e", "e", "e", "x", "m"])
            elif r.chance(1, 12):
                st = "x"
            toks.append("%d%s" % (r.choice([0, 1, 2, 3, r.rng(0, 9), r.rng(0, 9)]), st))
        return " ".join(toks)
    # exhaustive small: every one-shot failure position of a few fixed scripts
    for u in ("3m 2e", "2m 0m 4m 0e", "5e", "0e", "", "2m 3x", "1m 1m 1m 1m 1e", "700m 900m 300e"):
        for k in range(0, 9):
            yield "U %s ; F %s ; STOP 0 ; D %d" % (u, "none" if k == 0 else "at %d" % k, 1024 if "700" in u else 16)
        for kind in ("", " write", " closew", " create"):
            for k in (1, 2, 3):
                yield "U %s ; F from %d%s ; STOP 0 ; D %d" % (u, k, kind, 1024 if "700" in u else 16)
        for s in (1, 2, 3):
            yield "U %s ; F none ; STOP %d ; D %d" % (u, s, 1024 if "700" in u else 16)
    n = 1500 if tier == "quick" else 40000
    for _ in range(n):
        u = script()
        k = r.below(10)
        if k < 3:
            f = "none"
        elif k < 7:
            f = "at %d" % r.rng(1, 10)
        else:
            f = "from %d%s" % (r.rng(1, 8), r.choice(["", " write", " closew", " write"]))
        stop = r.choice([0, 0, 0, r.rng(1, 5)])
        yield "U %s ; F %s ; STOP %d ; D 16" % (u, f, stop)
    # large shards: the compressor flushes in the middle of the stream, so a failing write surfaces at a Read call
    for _ in range(40 if tier == "quick" else 600):
        u = " ".join("%dm" % r.rng(30000, 60000) for _ in range(r.rng(2, 5))) + " %d%s" % (r.rng(0, 50000), r.choice(["e", "e", "x"]))
        f = r.choice(["none", "at %d" % r.rng(1, 12), "from %d write" % r.rng(1, 6), "from %d closew" % r.rng(1, 3)])
        yield "U %s ; F %s ; STOP %d ; D 65536" % (u, f, r.choice([0, 0, 2]))


def gen(r, tier, sub):
    return gen_wt(r, tier) if sub == "C13wt" else gen_main(r, tier)


def nontrivial(case, obs):
    if case.startswith("U "):
        return "F none" not in case or "STOP 0" not in case
    ops = case.split(" ;; ")[1:]
    runs = [i for i, o in enumerate(ops) if o.startswith("run")]
    return len(runs) >= 2 or any(o.startswith("runfail") for o in ops)


def shrink_candidates(case):
    if case.startswith("U "):
        segs = case.split(" ; ")
        toks = segs[0].split()[1:]
        for i in range(len(toks)):
            yield " ; ".join(["U " + " ".join(toks[:i] + toks[i + 1:])] + segs[1:])
        return
    parts = case.split(" ;; ")
    if len(parts) > 2:
        yield " ;; ".join(parts[:-1])
    for i in range(1, len(parts) - 1):
        yield " ;; ".join(parts[:i] + parts[i + 1:])


def t2(chk, wc, tier, seed):
    """the cache decisions, regenerated from internal/slicecache/slicecache.go and exec/compile.go: Cache requires all shards
    (RequireAllCached clears every flag when one is missing), the write-through reader publishes only at end-of-stream and
    discards on an upstream error, and compile drops a task's dependencies only under IsCached."""
    import re
    import vlib
    sc = open(wc.repo + "/internal/slicecache/slicecache.go").read()
    sio = open(wc.repo + "/internal/slicecache/sliceio.go").read()
    comp = open(wc.repo + "/exec/compile.go").read()
    cache_go = open(wc.repo + "/cache.go").read()
    req_all = re.search(r"func \(c \*FileShardCache\) RequireAllCached\(\) \{(?:.|\n)*?for _, b := range c\.shardIsCached \{\n\t\tif !b \{\n\t\t\tfor i := range c\.shardIsCached \{\n\t\t\t\tc\.shardIsCached\[i\] = false", sc) is not None
    cache_requires = re.search(r"func Cache\((?:.|\n)*?shardCache\.RequireAllCached\(\)", cache_go) is not None and \
        re.search(r"func CachePartial\((?:.|\n)*?\n\}", cache_go).group(0).count("RequireAllCached") == 0
    try:
        i = sio.index("func (r *writethroughReader) Read(")
        wt = sio[i:sio.index("\n}\n", i)]
    except ValueError:
        wt = ""
    closes = wt.count("r.file.Close")
    # the file is closed (= published) only under EOF, after the compressor closed without an error; a failing compressor close
    # discards the file and returns before the file's Close (BS.WT.read: closeFails ↦ dropped)
    publish_at_eof = re.search(r"if err == sliceio\.EOF \{\n(?:\t+//[^\n]*\n)*\t+if closeErr := r\.zw\.Close\(\); closeErr != nil \{\n"
                               r"\t+r\.file\.Discard\([^\n]*\)\n\t+return n, closeErr\n\t+\}\n"
                               r"\t+if closeErr := r\.file\.Close\(ctx\); closeErr != nil \{\n\t+return n, closeErr\n", wt) is not None
    discard_on_err = re.search(r"\} else \{\n\t\tr\.file\.Discard\(", wt) is not None
    deps_nil = re.findall(r"task\.Deps = nil", comp)
    guarded = re.search(r"if c\.inv\.Env\.IsCached\(task\.Name, opIdx\) \{\n(?:\t+.*\n)*?\t+task\.Deps = nil", comp) is not None
    gen = ("def requireAllG : Bool := %s\ndef cacheKindsG : Bool := %s\ndef writeThroughClosesG : Nat := %d\ndef publishAtEofG : Bool := %s\n"
           "def discardOnErrG : Bool := %s\ndef depsDroppedG : Nat := %d\ndef depsDroppedGuardedG : Bool := %s") % tuple(
        ("true" if x else "false") if isinstance(x, bool) else x for x in (req_all, cache_requires, closes, publish_at_eof, discard_on_err, len(deps_nil), guarded))
    ties = [("cache_decisions_tie",
             "theorem cache_decisions_tie : requireAllG = true ∧ cacheKindsG = true ∧ writeThroughClosesG = 1 ∧ publishAtEofG = true ∧ "
             "discardOnErrG = true ∧ depsDroppedG = 1 ∧ depsDroppedGuardedG = true := by decide",
             "slicecache.RequireAllCached / Cache vs CachePartial (BS.Cache.served), writethroughReader: one Close of the file, at end-of-stream and only after the compressor closed without an error "
             "(otherwise Discard); Discard on upstream error; compile: Deps dropped once, under IsCached")]
    vlib.t2_check(chk, wc, "C13", ["BS.Model.Cache"], gen, ties)
