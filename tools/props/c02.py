"""C02 — machines killed at exact RPC boundaries of a distributed run."""
import sys, os
sys.path.insert(0, os.path.dirname(os.path.dirname(os.path.abspath(__file__))))
import progen

PID = "C02"
EXTRA_TARGETS = ("BS.Properties.C02r",)
PARALLEL = {"C02": 12}
TIMEOUT = {"quick": 2400, "thorough": 12000}
RULE = ("the fault suite (map-only, reduce, cogroup, fold, two-stage shuffles, a reused result, generated programs) on bigmachine "
        "testsystem clusters (1-proc and 2-proc machines, parallelism 2..4, no machine combiners: the property excludes them); one or two "
        "kills per case, each at the n-th call of Worker.Compile / Run / Stat / Read / CommitCombiner / Supervisor.Keepalive, or while a machine "
        "boots (Worker.FuncLocations, Supervisor.Getpid; also on one-machine clusters), either "
        "before the call runs, after it ran but before its reply is delivered (the task completed, the driver never learns), or — for "
        "Worker.Read — after half of the reply was streamed (in the middle of a shuffle read or of the final scan), "
        "including kills during the final scan (Worker.Read of the result); thorough: every (method, n, phase) up to the number of "
        "calls a failure-free run makes, for each suite program; non-trivial = a kill was performed")
TRUST = ["harness/compat/testsystem_rpchook.go: a hook around every RPC a test machine serves (the testsystem shim kills the machine "
         "and aborts the connection); machines are in-process, their stores are directories that survive the kill but are never "
         "reachable again because the machine's server is gone"]
ASSUMPTIONS = ["losses stop (at most two kills) and replacement machines can always be started", "with machine combiners an error is "
               "an allowed outcome (recovery is documented as not implemented)", "an error from the scan of a finished result is allowed"]

ROWS = "1:1 2:2 1:3 4:4 2:5 7:6 1:7 3:8 2:9 1:10 4:11 1:12"
BIG = " ".join("%d:%d" % ((i * 7) % 23, i) for i in range(120))
SUITE = [
    "N0=const 3 %s ; N1=map N0 inc ; OUT N1" % ROWS,
    "N0=const 3 %s ; N1=reduce N0 add ; OUT N1" % ROWS,
    "N0=const 2 %s ; N1=const 3 1:5 2:6 9:9 ; N2=cogroup N0 N1 ; OUT N2" % ROWS,
    "N0=const 3 %s ; N1=fold N0 ; OUT N1" % ROWS,
    "N0=reader 2 2 %s ; N1=reshuffle N0 ; N2=map N1 swap ; N3=reduce N2 max ; OUT N3" % ROWS,
    "N0=const 2 %s ; N1=reshard N0 3 ; N2=flatmap N1 two ; N3=reduce N2 add ; OUT N3" % ROWS,
]
SUITE += [
    # larger unordered outputs read in several frames: a read resumed after a loss must not skip or repeat rows
    "N0=const 3 %s ; N1=reshuffle N0 ; N2=map N1 inc ; OUT N2" % BIG,
    "N0=const 2 %s ; N1=fold N0 ; N2=reshuffle N1 ; OUT N2" % BIG,
]
# a Reduce whose shuffle partitions hold far more than the 128 rows of the reduce-merge's read buffers: a machine lost in the
# middle of a shuffle read fails a *refill* of the merge (not its first fill)
MANY = " ".join("%d:%d" % (i, i % 7) for i in range(2400))
SUITE += ["N0=const 2 %s ; N1=reduce N0 add ; OUT N1" % MANY]
REUSE = ("N0=const 3 %s ; N1=reduce N0 add ; OUT N1" % ROWS, "N0=reshuffle R0 ; N1=map N0 inc ; OUT N1")
METHODS = [("Worker.Run", 12), ("Worker.Read", 16), ("Worker.Compile", 3), ("Worker.Stat", 6), ("Worker.CommitCombiner", 3),
           ("Supervisor.Keepalive", 6), ("Worker.TaskStats", 4),
           # while a machine boots (before its first task): the capacity it was to provide must be replaced
           ("Worker.FuncLocations", 3), ("Supervisor.Getpid", 3)]
CONFIGS = ["bm M1 P2", "bm M1 P3", "bm M2 P4", "bm M1 P4", "bm M1 P1"]
# (Supervisor.Ping and Supervisor.Register are not killed: bigmachine itself retries them for 5..9 minutes before it gives a
# booting machine up — machine.go:426,529 —, a stall that is not bigslice's and that the harness would report as a hang)


def directed_boot():
    """machines lost while they boot, on the smallest clusters (one lost machine is all the capacity there is)"""
    p = "N0=const 2 %s ; N1=reduce N0 add ; OUT N1" % ROWS
    for cfg in ("bm M1 P1", "bm M1 P2", "bm M2 P2"):
        for m in ("Worker.FuncLocations", "Supervisor.Getpid"):
            yield "%s ;; KILL %s 1 before ;; %s" % (cfg, m, p)
            yield "%s ;; KILL %s 1 after ; KILL %s 2 before ;; %s" % (cfg, m, m, p)


def kill(r):
    m, mx = METHODS[min(r.below(len(METHODS)), r.below(len(METHODS)), r.below(len(METHODS) + 3))]
    return "KILL %s %d %s" % (m, r.rng(1, mx), r.choice(["before", "after", "mid"] if m == "Worker.Read" else ["before", "after"]))


def gen(r, tier):
    if tier != "quick":
        # every RPC boundary of the suite programs on the smallest cluster
        for p in SUITE:
            for m, mx in METHODS[:5]:
                for n in range(1, mx + 1):
                    for ph in (("before", "after", "mid") if m == "Worker.Read" else ("before", "after")):
                        yield "bm M1 P2 ;; KILL %s %d %s ;; %s" % (m, n, ph, p)
        for m, mx in METHODS[:4]:
            for n in range(1, mx + 1, 2):
                for ph in ("before", "after"):
                    yield "bm M1 P2 ;; KILL %s %d %s ;; %s ;; %s" % (m, n + 4, ph, REUSE[0], REUSE[1])
    # directed: the shuffle reads of the many-key Reduce cut in the middle (every one of them in the thorough tier)
    for n in ((1, 2, 3, 4) if tier == "quick" else range(1, 9)):
        yield "bm M1 P2 ;; KILL Worker.Read %d mid ;; %s" % (n, SUITE[-1])
    # directed: results that depend on each other along paths of different lengths (x1 = f(x0), x2 = f(x1), g(x0, x2)): a
    # replacement machine whose first task belongs to the last program must be told about all of them, in dependency order
    chain = ["N0=const 2 %s ; OUT N0" % ROWS, "N0=map R0 inc ; OUT N0", "N0=map R1 inc ; OUT N0",
             "N0=cogroup R0 R2 ; N1=reduce N0 add ; OUT N1"]
    for n in ((7, 9, 11) if tier == "quick" else range(6, 14)):
        for cfg in ("bm M1 P2", "bm M1 P3"):
            yield "%s ;; KILL Worker.Run %d before ;; %s" % (cfg, n, " ;; ".join(chain))
    boot = list(directed_boot())
    for c in (boot if tier != "quick" else [c for c in boot if r.below(3) == 0]):
        yield c
    n = 60 if tier == "quick" else 600
    for i in range(n):
        cfg = r.choice(CONFIGS)   # machine-combiner sessions are outside the property (recovery not implemented for them)
        kills = kill(r) + (" ; " + kill(r) if r.chance(1, 4) else "")
        k = r.below(10)
        if k < 6:
            yield "%s ;; %s ;; %s" % (cfg, kills, r.choice(SUITE))
        elif k < 8:
            yield "%s ;; %s ;; %s ;; %s" % (cfg, kills, REUSE[0], REUSE[1])
        else:
            p, sh, od, isscan = progen.gen_program(r, 5, e2e=True)
            yield "%s ;; %s ;; %s" % (cfg, kills, p)


def nontrivial(case, obs):
    return "kills=0" not in obs.split("##")[-1]


def shrink_candidates(case):
    return []


def finding_key(case, obs, model, oracle):
    # D24: the scan of a result resumes at a byte offset after the lost task output was recomputed; a recomputed output
    # whose row order is not fixed (Fold's map order, arrival order of shuffled inputs) is not byte-identical
    if ("wrong rows after a machine loss (the program does not fix the row order of its result)" in oracle
            and "KILL Worker.Read" in case and " mid" in case):
        return "resumed-read-of-recomputed-unordered-output"
    return None


def t2(chk, wc, tier, seed):
    """how (*bigmachineExecutor).Run classifies the ways a task attempt can end, regenerated from exec/bigmachine.go: every
    non-fatal failure (the compile fails transiently, the call to the worker fails) must leave the task LOST (so that the
    evaluator resubmits it — BS.Loss/`loss_safe` assume lost outputs are produced again), only remote fatal errors leave ERR."""
    import re
    import vlib
    src = open(wc.repo + "/exec/bigmachine.go").read()
    try:
        i = src.index("func (b *bigmachineExecutor) Run(task *Task)")
        body = src[i:src.index("\n}\n", i)]
    except ValueError:
        body = ""
    # the `default:` arms of the compile loop and of the result switch, and what they do to the task
    arms = re.findall(r"default:\n((?:\t\t.*\n)+?)(?=\t\}|\t\tcase )", body)
    sets = []
    for a in arms:
        m = re.search(r"task\.(Set\((\w+)\)|Errorf?\()", a)
        sets.append(m.group(2) if m and m.group(2) else ("Error" if m else "none"))
    fatal = re.search(r"case errors\.Is\(errors\.Remote, err\) && errors\.Match\(fatalErr, err\):\n(?:\t\t.*\n)*?\t\ttask\.Error\(err\)", body) is not None
    ok = re.search(r"case err == nil:\n(?:\t\t.*\n)*?\t\ttask\.Set\(TaskOk\)", body) is not None
    gen = "def runDefaultArmsG : List String := [%s]\n" % ", ".join('"%s"' % s for s in sets)
    gen += "def runFatalArmG : Bool := %s\ndef runOkArmG : Bool := %s" % ("true" if fatal else "false", "true" if ok else "false")
    ties = [("run_classification_tie",
             'theorem run_classification_tie : runDefaultArmsG = ["TaskLost", "TaskLost"] ∧ runFatalArmG = true ∧ runOkArmG = true := by decide',
             "exec/bigmachine.go (*bigmachineExecutor).Run: transient compile failure and failed worker call leave the task LOST; "
             "remote fatal errors ERR; success OK")]
    vlib.t2_check(chk, wc, "C02", ["BS.Model.Loss"], gen, ties)
