"""C18 — constructors vs documented type schemas: full cross product of a finite universe of slice
types and function signatures (functions are made with reflect.FuncOf)."""
import itertools

PID = "C18"
CASE_LIMIT = {"C18": 45}   # seconds: these cases are function calls, not sessions
RULE = ("for each constructor (Map, Filter, Flatmap, Fold, Reduce, ReaderFunc, WriterFunc, Repartition, Reshuffle, Reshard, "
        "Prefixed, Cogroup, Head) the cross product of 11 input slice types (1-3 columns over int,int64,string,bool,float64,"
        "struct,implementing type; prefixes 1-2) with a signature universe (parameter lists derived from the slice's columns: "
        "exact, one type changed, one dropped, one added, interface-typed, variadic tails, context first; result lists from a "
        "fixed set) — exhaustive over that universe; plus non-function arguments; observation = accept(out types, prefix, "
        "shards) | typecheck error (attributed to the harness file?) | other panic; non-trivial = every case (each is a "
        "distinct signature/slice pair)")
TRUST = ["reflect.FuncOf/MakeFunc produce ordinary Go function values of the given signature"]
ASSUMPTIONS = ["the universe has no named non-struct types, channels or maps", "Const's unequal-column-length panic is a data "
               "error, not a type-schema rejection, and is not exercised"]

BASE = ["int", "i64", "str", "bool", "f64", "S", "T"]
SLICES = [(["int"], 1), (["str", "int"], 1), (["int", "str"], 1), (["i64", "f64"], 1), (["S", "int"], 1), (["int", "T"], 1),
          (["int", "int", "str"], 2), (["str", "str", "i64"], 1), (["bool", "int"], 1), (["f64", "str"], 1), (["int", "i64", "str"], 3),
          # key columns whose type is registered with only a hash function (H) or only an order (L)
          (["H", "int"], 1), (["L", "int"], 1), (["int", "H", "int"], 2), (["int", "L", "str"], 2), (["int", "H", "int"], 1)]
OUTS = ["-", "int", "bool", "i64", "str", "err", "int,err", "int,err,int", "[]int", "[]str,[]int", "int,str", "f64", "bool,bool"]


def sig_variants(cols):
    """parameter lists around the slice's column types"""
    vs = set()
    vs.add((tuple(cols), 0))
    for i in range(len(cols)):
        for t in ("int", "str", "I", "f64"):
            c = list(cols)
            c[i] = t
            vs.add((tuple(c), 0))
    vs.add((tuple(cols[:-1]), 0))
    vs.add((tuple(cols) + ("int",), 0))
    # variadic tails
    vs.add((tuple(cols[:-1]) + ("[]" + cols[-1],), 1))
    vs.add((tuple(cols) + ("[]int",), 1))
    vs.add((("[]" + cols[0],), 1))
    vs.add((tuple(cols[:-1]) + ("[]I",), 1))
    return sorted(vs)


def gen(r, tier):
    for cols, pfx in SLICES:
        s = "S %s P %d N %d" % (",".join(cols), pfx, 3)
        for ctor in ("map", "filter", "flatmap"):
            for (ins, var) in sig_variants(cols):
                for out in OUTS:
                    for ctx in (0, 1):
                        if tier == "quick" and ctx == 1 and out not in ("int", "bool", "[]int"):
                            continue
                        yield "%s ; %s ; F in=%s out=%s var=%d ctx=%d" % (ctor, s, ",".join(ins) or "-", out, var, ctx)
        # fold: func(acc, t2..tn) acc
        for acc in ("int", "f64", "str", "S"):
            for rest in (cols[1:], cols[1:] + ["int"], cols[1:][:-1], ["str"] + cols[2:]):
                for out in (acc, "int", acc + "," + acc, "-"):
                    yield "fold ; %s ; F in=%s out=%s var=0 ctx=0" % (s, ",".join([acc] + rest), out)
        # reduce: func(t, t) t on the residual column
        for t in BASE:
            for ins in ((t, t), (t,), (t, t, t), (t, "int")):
                for out in (t, "int", t + "," + t, "-"):
                    yield "reduce ; %s ; F in=%s out=%s var=0 ctx=0" % (s, ",".join(ins), out)
        # writerfunc
        vec = ["[]" + c for c in cols]
        # one column parameter with another element type: an interface the column type implements (T) or not, another type
        retyped = []
        for i in range(len(vec)):
            for e in ("[]I", "[]f64", "[]str", "[]int"):
                if e != vec[i]:
                    retyped.append(["int", "S", "err"] + vec[:i] + [e] + vec[i + 1:])
        for ins in [["int", "S", "err"] + vec, ["int", "int", "err"] + vec, ["int", "S"] + vec, ["str", "S", "err"] + vec,
                    ["int", "S", "err"] + vec[:-1], ["int", "S", "err"] + cols, ["int", "S", "err"] + vec + ["[]int"]] + retyped:
            for out in ("err", "int", "-", "err,err"):
                yield "writerfunc ; %s ; F in=%s out=%s var=0 ctx=0" % (s, ",".join(ins), out)
        # repartition
        for ins in (["int"] + cols, cols, ["int"] + cols + ["int"], ["i64"] + cols, ["int"] + cols[:-1]):
            for out in ("int", "i64", "-", "int,int"):
                yield "repartition ; %s ; F in=%s out=%s var=0 ctx=0" % (s, ",".join(ins) or "-", out)
        yield "reshuffle ; " + s
        for n in (1, 3, 5):
            yield "reshard %d ; %s" % (n, s)
        for p in range(0, 5):
            yield "prefixed %d ; %s" % (p, s)
        yield "head 3 ; " + s
        yield "map ; %s ; NF" % s
        yield "filter ; %s ; NF" % s
        yield "reduce ; %s ; NF" % s
        for cols2, pfx2 in SLICES:
            yield "cogroup ; %s ; S %s P %d N %d" % (s, ",".join(cols2), pfx2, 5)
        # three and four inputs, shard counts in every order (the result has the largest)
        for ns in ((4, 1, 2), (1, 4, 2), (2, 1, 4), (2, 5, 1, 3), (3, 1, 5, 2), (1, 1, 1)):
            yield "cogroup ; " + " ; ".join("S %s P %d N %d" % (",".join(cols), pfx, k) for k in ns)
            yield "cogroup ; " + " ; ".join("S %s P %d N %d" % (",".join(cols if i != 1 else cols[:pfx] + ["str"]), pfx, k) for i, k in enumerate(ns))
    # readerfunc
    for ins in (["int", "S", "[]int"], ["int", "S", "[]int", "[]str"], ["int", "int", "[]S"], ["str", "S", "[]int"], ["int", "S"],
                ["int", "S", "int"], ["int", "S", "[]int", "str"], ["int"], []):
        for out in OUTS:
            for n in (1, 4):
                yield "readerfunc %d ; F in=%s out=%s var=0 ctx=0" % (n, ",".join(ins) or "-", out)
    yield "readerfunc 2 ; NF"


def nontrivial(case, obs):
    return True
