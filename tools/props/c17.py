"""C17 — readers: every reader kind over scripted upstreams, drained with random destination sizes."""
PID = "C17"
EXTRA_TARGETS = ("BS.Properties.C17c",)
CASE_LIMIT = {"C17": 90, "C17red": 90}   # seconds: these cases are function calls, not sessions
RULE = ("for each reader kind (map, filter, flatmap, head, fold (int64, int and string keys), writer, scan, const, readerfunc, multi, exec multi, frame, "
        "taskbuf, readfull, scanner, vector scanner, ReadAll, closing, cogroup): random inputs (0..40 rows, keys 0..9), random upstream scripts "
        "(chunk limits incl. zero-row reads, EOF with or after the last rows, injected read errors) and random destination-"
        "size sequences (1..7, cycled); destination frames are poisoned and kept, so writes beyond n and later alteration of "
        "delivered rows are observed; non-trivial = non-empty input and a script or more than one destination size")
TRUST = ["the scripted upstream abides by the sliceio.Reader contract (never writes beyond the rows it returns)"]
ASSUMPTIONS = ["ReaderFunc: rows beyond n are under the user's function's control (the library zeroes the destination first); "
               "not counted as a write beyond n",
               "flatmap, fold, cogroup, taskbuf, readfull, scanner, writer, scan, readerfunc, const are judged against their list "
               "specification by the oracle; map, filter, head, multi, frame additionally have machine-checked refinement proofs"]

KINDS = ["map", "filter", "flatmap", "head", "fold", "foldint", "foldstr", "writer", "scan", "const", "readerfunc", "multi", "emulti", "frame",
         "taskbuf", "readfull", "scanner", "scannerv", "readall", "closing", "cogroup"]


def gen_up(r, maxrows=40, script=True, fail=False):
    n = r.choice([0, 0, 1, 2, 3, 5, 8, 13, r.rng(0, maxrows)])
    nk = 9
    if maxrows > 100:
        # more rows than the 128-row internal buffers of the merging readers, with enough distinct keys
        n = r.choice([127, 128, 129, 130, 200, 257, r.rng(100, 300)])
        nk = r.choice([9, 60, 400])
    rows = ["%d:%d" % (r.rng(0, nk), r.rng(0, 50)) for _ in range(n)]
    s = "IN " + " ".join(rows)
    if script and r.chance(3, 4):
        steps = []
        for _ in range(r.rng(1, 8)):
            k = r.below(10)
            if k < 2:
                steps.append("0")
            else:
                steps.append("%d%s" % (r.rng(1, 9), "e" if r.chance(1, 2) else ""))
        if fail:
            steps.insert(r.below(len(steps) + 1), r.choice(["err", "err", "tmp"]))
        s += " SCRIPT " + " ".join(steps)
    elif fail:
        s += " SCRIPT " + r.choice(["err", "tmp"])
    return s


SUBS = ["C17", "C17red"]


def gen_reduce(r, tier):
    """the reducing merge reader (sortio.Reduce, what a Reduce task reads through) over sorted inputs longer than its 128-row
    buffers, most keys present in one input only, delivered in every chunking: judged like the C10 reduce cases"""
    n = 60 if tier == "quick" else 1500
    for i in range(n):
        ns = r.rng(1, 3)
        ups = []
        for j in range(ns):
            size = r.choice([129, 130, 200, 257, 300, 40])
            ks = sorted(set(ns * k + j if r.chance(9, 10) else ns * k for k in range(size)))
            rows = " ".join("%d:%d" % (k, (k * 7 + j) % 50) for k in ks)
            sc = ""
            if r.chance(2, 3):
                steps = ["%d%s" % (r.choice([1, 2, 9, 100, 127, 128]), "e" if r.chance(1, 2) else "") for _ in range(r.rng(1, 6))]
                sc = " SCRIPT " + " ".join(steps)
            ups.append("IN " + rows + sc)
        dest = "DEST " + " ".join(str(r.choice([1, 2, 7, 64, 128, 200])) for _ in range(r.rng(1, 3)))
        yield " ; ".join(["reduce"] + ups + [dest])


def gen(r, tier, sub):
    if sub == "C17red":
        yield from gen_reduce(r, tier)
        return
    n = 4000 if tier == "quick" else 80000
    for i in range(n):
        kind = KINDS[i % len(KINDS)]
        fail = r.chance(1, 12) and kind not in ("frame", "const", "taskbuf", "scanner", "scan")
        head = kind
        nups = 1
        if kind == "head":
            head += " %d" % r.choice([0, 1, 2, 3, 5, 8, 30])
        elif kind == "const":
            ns = r.rng(1, 5)
            head += " %d %d" % (ns, r.below(ns))
        elif kind in ("multi", "emulti"):
            nups = r.rng(0, 4)
        elif kind == "taskbuf":
            npart = r.rng(1, 3)
            head += " %d %d" % (npart, r.below(npart))
            nups = r.rng(0, 5)
        elif kind == "cogroup":
            nups = r.rng(1, 3)
        scripted = kind not in ("frame", "const", "taskbuf")
        big = kind in ("cogroup", "fold", "foldint", "foldstr", "multi", "emulti", "taskbuf", "flatmap", "filter") and i % 5 == 0
        ups = [gen_up(r, maxrows=(300 if big else 40), script=scripted, fail=(fail and j == 0)) for j in range(nups)]
        dest = [r.rng(1, 7) for _ in range(r.rng(1, 4))]
        if r.chance(1, 10):
            dest = [r.choice([1, 128, 200])]
        yield " ; ".join([head] + ups + ["DEST " + " ".join(map(str, dest))])


def nontrivial(case, obs):
    return ":" in case and ("SCRIPT" in case or len(case.split("DEST")[1].split()) > 1)


def shrink_candidates(case):
    parts = case.split(" ; ")
    for pi, p in enumerate(parts):
        toks = p.split()
        if toks and toks[0] == "IN":
            for i in range(1, len(toks)):
                if toks[i] == "SCRIPT":
                    continue
                q = toks[:i] + toks[i + 1:]
                yield " ; ".join(parts[:pi] + [" ".join(q)] + parts[pi + 1:])
        if toks and toks[0] == "DEST" and len(toks) > 2:
            yield " ; ".join(parts[:pi] + [" ".join(toks[:-1])] + parts[pi + 1:])
