"""C10 — sorting reader, merge reader, reducing merge over scripted upstreams at every spill/canary/batch size."""
PID = "C10"
EXTRA_TARGETS = ("BS.Properties.C10m", "BS.Properties.C10e")
CASE_LIMIT = {"C10": 90}   # seconds: these cases are function calls, not sessions
RULE = ("int64 keys and (a fifth of the cases again) int16/uint16/int32/uint32/int/uint64/uint/string/int8/uint8 keys; sort: inputs of 0..60 rows (keys 0..9, many equal), canary 1..8, spill target 1..400 bytes, spill batch 1..8, "
        "upstream scripts with zero-row reads and both EOF placements, injected read errors; merge: 0..5 sorted streams "
        "(some empty), spill batch 1..8, scripts without zero-row reads; reduce: 0..5 streams each sorted with unique keys; "
        "all drained with random destination sizes into poisoned frames; spill directories counted after creation; "
        "non-trivial = at least 3 rows and a script, an error or several streams")
TRUST = ["container/heap and sort.Sort implement their contracts given a consistent Less (proved in C11)",
         "the scripted upstream abides by the Reader contract"]
ASSUMPTIONS = ["merge and reduce-merge inputs never return zero rows without ending (documented: an empty read ends the input)",
               "reduce-merge reads 128-row buffers per stream (sortio's chunk size is fixed at package init)",
               "the heap-based state machines are tied by this correspondence; in Lean: the laws of the list specifications"]


def rows_sorted_unique(r, n):
    ks = sorted(set(r.below(14) for _ in range(n)))
    return " ".join("%d:%d" % (k, r.rng(0, 30)) for k in ks)


def script(r, zero_ok, fail):
    steps = []
    for _ in range(r.rng(1, 8)):
        if zero_ok and r.chance(1, 6):
            steps.append("0")
        else:
            steps.append("%d%s" % (r.rng(1, 9), "e" if r.chance(1, 2) else ""))
    if fail:
        steps.insert(r.below(len(steps) + 1), r.choice(["err", "tmp"]))
    return " SCRIPT " + " ".join(steps)


TYPED = ["i16", "u16", "i32", "u32", "int", "u64", "str", "i8", "u8", "uint"]


def gen(r, tier):
    n = 2500 if tier == "quick" else 50000
    for c in _gen_i64(r, n):
        yield c
    # the same three readers over other key types (typed, monotone images of the keys, spread over all bytes of the type)
    for j, c in enumerate(_gen_i64(r, n // 5)):
        if "err" in c or "tmp" in c:
            continue
        kind, _, rest = c.partition(" ")
        yield "%s K=%s %s" % (kind, TYPED[j % len(TYPED)], rest)


def _gen_i64(r, n):
    for i in range(n):
        dest = "DEST " + " ".join(str(r.rng(1, 7)) for _ in range(r.rng(1, 3)))
        fail = r.chance(1, 12)
        k = i % 3
        if k == 0:
            nrows = r.choice([0, 1, 2, 5, 9, 17, 33, r.rng(0, 60)])
            rows = " ".join("%d:%d" % (r.below(10) if r.chance(3, 4) else 3, r.rng(0, 50)) for _ in range(nrows))
            sc = script(r, True, fail) if r.chance(3, 4) or fail else ""
            yield "sort %d %d %d ; IN %s%s ; %s" % (r.rng(1, 8), r.choice([1, 10, 50, 100, 400]), r.rng(1, 8), rows, sc, dest)
        elif k == 1:
            ups = []
            for j in range(r.rng(0, 5)):
                rows = sorted((r.below(10), r.rng(0, 50)) for _ in range(r.choice([0, 1, 3, 6, 12])))
                sc = script(r, False, fail and j == 0) if r.chance(1, 2) or (fail and j == 0) else ""
                ups.append("IN " + " ".join("%d:%d" % kv for kv in rows) + sc)
            yield " ; ".join(["merge %d" % r.rng(1, 8)] + ups + [dest])
        else:
            ups = []
            for j in range(r.rng(0, 5)):
                sc = script(r, False, fail and j == 0) if r.chance(1, 2) or (fail and j == 0) else ""
                ups.append("IN " + rows_sorted_unique(r, r.choice([0, 1, 3, 6, 12])) + sc)
            yield " ; ".join(["reduce"] + ups + [dest])


def nontrivial(case, obs):
    return case.count(":") >= 3 and ("SCRIPT" in case or case.count("IN") > 1)


def shrink_candidates(case):
    parts = case.split(" ; ")
    for pi, p in enumerate(parts):
        toks = p.split()
        if toks and toks[0] == "IN":
            for i in range(1, len(toks)):
                if toks[i] == "SCRIPT":
                    break
                q = toks[:i] + toks[i + 1:]
                yield " ; ".join(parts[:pi] + [" ".join(q)] + parts[pi + 1:])


def t2(chk, wc, tier, seed):
    """how the reduce-merge reader and its cursors treat a failing input, regenerated from sortio/reader.go and sortio/sort.go:
    an error is sticky; at set-up a failing Fill returns (0, err); in a round the refill of a used-up cursor that fails returns
    `n, err` *before* the round's row is counted; Fill is one Read, an error other than EOF is returned as it is and an empty
    read is end-of-stream (BS.Merge.ereduce)."""
    import re
    import vlib
    rd = open(wc.repo + "/sortio/reader.go").read()
    st = open(wc.repo + "/sortio/sort.go").read()
    try:
        body = rd[rd.index("func (r *reader) Read("):]
        body = body[:body.index("\n}\n")]
    except ValueError:
        body = ""
    sticky = re.search(r"func \(r \*reader\) Read\([^)]*\) \(int, error\) \{\n\tif r\.err != nil \{\n\t\treturn 0, r\.err\n\t\}", rd) is not None
    setup = re.search(r"case err != nil:\n\t+r\.err = err\n\t+return 0, r\.err", body) is not None
    refill = re.search(r"if err := buf\.Fill\(ctx\); err != nil && err != sliceio\.EOF \{\n\t+r\.err = err\n\t+return n, err\n", body)
    count = body.find("\t\tn++\n")
    before = refill is not None and count > refill.start()
    try:
        fill = st[st.index("func (f *FrameBuffer) Fill("):]
        fill = fill[:fill.index("\n}\n")]
    except ValueError:
        fill = ""
    one_read = fill.count(".Read(") == 1
    err_as_is = re.search(r"if err != nil && err != sliceio\.EOF \{\n\t\treturn err\n\t\}", fill) is not None
    empty_eof = re.search(r"if f\.Len == 0 && err == nil \{\n\t\terr = sliceio\.EOF", fill) is not None
    gen = "\n".join("def %s : Bool := %s" % (n, "true" if v else "false") for n, v in (
        ("stickyErrorG", sticky), ("setupErrorReturnedG", setup), ("refillErrorBeforeCountG", before), ("fillIsOneReadG", one_read),
        ("fillReturnsErrorG", err_as_is), ("emptyReadIsEofG", empty_eof)))
    ties = [("reduce_error_order_tie",
             "theorem reduce_error_order_tie : stickyErrorG = true ∧ setupErrorReturnedG = true ∧ refillErrorBeforeCountG = true ∧ "
             "fillIsOneReadG = true ∧ fillReturnsErrorG = true ∧ emptyReadIsEofG = true := by decide",
             "sortio/reader.go (*reader).Read, sortio/sort.go (*FrameBuffer).Fill: where an input's error is returned (BS.Merge.ereduce: "
             "anyDead at set-up, and after the advance of a round, whose row is then not delivered)")]
    vlib.t2_check(chk, wc, "C10", ["BS.Model.MergeErr"], gen, ties)
