"""C11 — frame views: op sequences over a pool of frames/views, step-by-step against BS.Frame."""
PID = "C11"
CASE_LIMIT = {"C11": 45}   # seconds: these cases are function calls, not sessions
EXACT = True
RULE = ("op sequences (slice/pfx/grow/ensure/make/copy/append/swap/zero/less/hash/sort/ptr, and codec = the view written by the row-stream "
        "encoder and decoded into a fresh frame) over a pool of "
        "frames and aliasing views for 16 column-type schemas (every built-in key type compared and hashed, two with a custom-codec column); after every op every allocation and every "
        "frame (read through Index/Value/Interface) is dumped and compared with the Lean model; "
        "non-trivial = the sequence contains a mutating op on a view with non-zero offset or a reallocation; "
        "distinct = distinct case text")
TRUST = ["reflect/unsafe memmove copies the addressed elements (the addresses are what the model checks)",
         "sort.Sort implements its contract given the Less/Swap proved consistent here"]
ASSUMPTIONS = ["int sizes do not overflow", "values are images of small naturals under an injective, monotone map per column type"]

# kinds, number of leading comparable columns
SCHEMAS = [
    (["i64"], 1), (["i64", "i64"], 2), (["str", "i64"], 2), (["i32", "str", "st"], 2), (["i8", "pt"], 1),
    (["i16", "sl", "arr"], 1), (["bytes", "f64"], 2), (["str", "str", "i8"], 3), (["u16", "bool", "f32", "int"], 4),
    (["i64", "cc"], 1), (["str", "cc", "i32"], 1),      # a column with a registered custom codec
    # every built-in key type appears as a compared and hashed column
    (["i32", "s3"], 1), (["i8", "s3", "s3"], 1),
    (["u8", "u32"], 2), (["u64", "uint", "uptr"], 3), (["i32", "i16", "int"], 3), (["f32", "f64"], 2), (["bytes", "u8"], 2),
]


def gen_case(r, maxops, invalid):
    kinds, ncmp = r.choice(SCHEMAS)
    n = r.rng(1, 8)
    vals = []
    for _ in range(n):
        for k in kinds:
            if k == "bool":
                vals.append(r.below(2))
            else:
                vals.append(r.rng(1, 12) if r.chance(3, 4) else r.rng(0, 90))
    ops = []
    # track a cheap abstract of frames: (len, cap, pfx) to generate mostly valid ops
    frames = [[n, n]]
    for _ in range(r.rng(1, maxops)):
        a = r.below(len(frames))
        ln, cp = frames[a]
        k = r.below(100)
        bad = invalid and r.chance(1, 12)
        if k < 22:
            if bad:
                i, j = r.rng(0, cp + 2), r.rng(0, cp + 2)
            else:
                i = r.rng(0, cp)
                j = r.rng(i, cp)
            ops.append("slice %d %d %d" % (a, i, j))
            if i <= j <= cp:
                frames.append([j - i, cp - i])
        elif k < 28:
            p = r.rng(1, ncmp) if not bad else r.rng(0, len(kinds) + 1)
            if p == 0:
                p = 1  # Prefixed(0) then Less would index column -1: outside the documented use
            if p > ncmp and p <= len(kinds):
                p = ncmp
            ops.append("pfx %d %d" % (a, p))
            if p <= len(kinds):
                frames.append([ln, cp])
        elif k < 34:
            g = r.rng(0, 6)
            ops.append("grow %d %d" % (a, g))
            i1 = ln + g
            if i1 <= cp:
                frames.append([i1, cp])
            else:
                m = cp
                if m == 0:
                    m = g
                else:
                    while m < i1:
                        m += m
                frames.append([i1, m])
        elif k < 40:
            e = r.rng(0, cp + 4)
            ops.append("ensure %d %d" % (a, e))
            if ln == e:
                frames.append([ln, cp])
            elif e <= cp:
                frames.append([e, cp])
            else:
                g = e - ln
                m = cp
                if m == 0:
                    m = g
                else:
                    while m < e:
                        m += m
                frames.append([e, m])
        elif k < 43:
            c = r.rng(0, 6)
            l = r.rng(0, c) if not bad else r.rng(0, c + 2)
            ops.append("make %d %d" % (l, c))
            if l <= c:
                frames.append([l, c])
        elif k < 52:
            ops.append("copy %d %d" % (a, r.below(len(frames))))
        elif k < 55 and "pt" not in kinds:      # gob cannot encode nil pointer elements (value 0 of a pointer column)
            ops.append("codec %d" % a)
            frames.append([ln, ln])
        elif k < 55:
            ops.append("copy %d %d" % (a, r.below(len(frames))))
        elif k < 62:
            b = r.below(len(frames))
            ops.append("append %d %d" % (a, b))
            lb = frames[b][0]
            i1 = ln + lb
            if i1 <= cp:
                frames.append([i1, cp])
            else:
                m = cp
                if m == 0:
                    m = lb
                else:
                    while m < i1:
                        m += m
                frames.append([i1, m])
        elif k < 76:
            hi = max(ln - 1, 0) if not bad else ln + 1
            ops.append("swap %d %d %d" % (a, r.rng(0, hi), r.rng(0, hi)))
        elif k < 80:
            ops.append("zero %d" % a)
        elif k < 86:
            hi = max(ln - 1, 0)
            ops.append("less %d %d %d" % (a, r.rng(0, hi), r.rng(0, hi)))
        elif k < 91:
            ops.append("hash %d %d %d" % (a, r.rng(0, max(ln - 1, 0)), r.choice([0, 1, 0x9acb0442, 12345])))
        elif k < 96:
            ops.append("sort %d" % a)
        else:
            ops.append("ptr %d %d %d" % (a, r.below(len(kinds)), r.rng(0, max(ln - 1, 0))))
        if len(frames) > 10:
            break
    return "K %s N %d V %s ; %s" % (",".join(kinds), n, " ".join(map(str, vals)), " ; ".join(ops))


def gen(r, tier):
    n = 1500 if tier == "quick" else 40000
    for i in range(n):
        yield gen_case(r, 6 if i % 3 == 0 else 14, invalid=(i % 10 == 0))


def nontrivial(case, obs):
    return any(w in case for w in ("swap", "copy", "append", "zero", "sort", "grow", "ensure"))


def shrink_candidates(case):
    head, _, rest = case.partition(" ; ")
    ops = rest.split(" ; ") if rest else []
    # removing an op that creates a frame renumbers later frames: only drop from the end, or non-creating ops
    creating = ("slice", "pfx", "grow", "ensure", "make", "append", "codec")
    if ops:
        yield head + " ; " + " ; ".join(ops[:-1]) if len(ops) > 1 else head
    for i in range(len(ops)):
        if not ops[i].startswith(creating):
            rem = ops[:i] + ops[i + 1:]
            yield (head + " ; " + " ; ".join(rem)) if rem else head


def t2(chk, wc, tier, seed):
    """Index kernels of frame.go regenerated from the source and tied to BS.Frame.idx / slice."""
    import vlib
    gen = []
    ties = []

    def callargs(fn, callee, prefix):
        rc, out, err = vlib.gofacts(wc, "callargs", "frame/frame.go", fn, callee, prefix)
        gen.append(out if rc == 0 else "-- gofacts failed for %s: %s" % (fn, err.strip()))

    callargs("Frame.Swap", "f.data[k].ops.swap", "swapArg")
    callargs("Frame.Less", "f.data[col].ops.Less", "lessArgA")
    callargs("Frame.Less", "f.data[f.prefix].ops.Less", "lessArgB")
    callargs("Frame.HashWithSeed", "f.data[col].ops.HashWithSeed", "hashArgA")
    callargs("Frame.HashWithSeed", "f.data[f.prefix].ops.HashWithSeed", "hashArgB")
    callargs("Frame.Index", "f.data[col].val.Index", "indexArg")
    callargs("Frame.Encode", "f.data[col].ops.Encode", "encArg")
    callargs("Frame.Decode", "f.data[col].ops.Decode", "decArg")
    rc, out, err = vlib.gofacts(wc, "fields", "frame/frame.go", "Frame.Slice", "sliceF")
    gen.append(out if rc == 0 else "-- gofacts failed for Slice: " + err.strip())

    def idx_tie(name, var):
        ties.append((name + "_tie",
                     "theorem %s_tie (off i : Nat) : %s (off : Int) (i : Int) = ((BS.Frame.idx off i : Nat) : Int) := by\n"
                     "  unfold %s BS.Frame.idx; omega" % (name, name, name),
                     "frame/frame.go " + name))
    # arguments (i+f.off, j+f.off): params are sorted alphabetically: f_off, then i/j
    for n in ("swapArg_0_0", "swapArg_0_1", "lessArgA_0_0", "lessArgA_0_1", "lessArgA_1_0", "lessArgA_1_1",
              "lessArgB_0_0", "lessArgB_0_1", "hashArgA_0_0", "hashArgB_0_0", "indexArg_0_0"):
        idx_tie(n, "i")
    ties.append(("enc_range_tie",
                 "theorem enc_range_tie (off len : Nat) : encArg_0_1 (off : Int) = off ∧ encArg_0_2 (off : Int) (len : Int) = ((off + len : Nat) : Int)\n"
                 "    ∧ decArg_0_1 (off : Int) = off ∧ decArg_0_2 (off : Int) (len : Int) = ((off + len : Nat) : Int) := by\n"
                 "  unfold encArg_0_1 encArg_0_2 decArg_0_1 decArg_0_2; omega",
                 "frame/frame.go Encode/Decode ranges"))
    ties.append(("slice_tie",
                 "theorem slice_tie (f g : BS.Frame.Frame) (i j : Nat) (h : BS.Frame.slice f i j = some g) :\n"
                 "    sliceF_1 (f.off : Int) (i : Int) = g.off ∧ sliceF_2 (i : Int) (j : Int) = g.len ∧ sliceF_3 (f.cap : Int) (i : Int) = g.cap := by\n"
                 "  unfold BS.Frame.slice at h; split at h\n  · cases h\n  · cases h; unfold sliceF_1 sliceF_2 sliceF_3; simp only; omega",
                 "frame/frame.go Slice"))
    vlib.t2_check(chk, wc, "C11", ["BS.Model.Frame", "BS.Tie.Tactic"], "\n".join(gen), ties)
