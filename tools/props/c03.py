"""C03 — evaluator: (a) the state machine step by step against BS.Eval; (b) the real exec.Eval
against a scripted executor, its handout log judged by the Lean oracle."""
PID = "C03"
SUBS = ["C03", "C03eval"]
PARALLEL = {"C03eval": 8}
RULE = ("random staged task graphs (chains, diamonds, multi-root, shuffle phases with task groups, shared dependencies, the same "
        "dependency listed twice as Cogroup(x, x) compiles to) of "
        "<=12 tasks; (a) op sequences set/enq/ret/retp/run with every task state as initial state, compared exactly after "
        "every op (todo, pending, Done, Err, return value); (b) exec.Eval with per-task outcome scripts (ok/lost/fatal), "
        "later loss of completed tasks, initial states from earlier evaluations, one and two concurrent evaluations; "
        "non-trivial = graph has a dependency and the history contains a non-OK outcome or a non-INIT initial state")
TRUST = ["ctxsync.Cond / Go channels deliver every Broadcast to waiters registered before it (C19 models this protocol)"]
ASSUMPTIONS = ["graphs are compiled graphs: dependency heads precede dependents (proved of compile's output in C08)",
               "Eval-level runs are judged on safety and termination; exact results only for scripts without later losses"]


def gen_graph(r, maxn=12):
    stages = []
    n = 0
    deps = {}
    groups = []
    nst = r.rng(1, 5)
    for si in range(nst):
        k = r.rng(1, 3)
        if n + k > maxn:
            break
        ids = list(range(n, n + k))
        n += k
        grouped = k > 1 and r.chance(1, 2) or (k == 1 and r.chance(1, 6))
        if grouped and k >= 1:
            groups.append(ids)
        if stages:
            # depend on 1..2 earlier stages (mostly the previous one)
            srcs = {len(stages) - 1} if r.chance(3, 4) else {r.below(len(stages))}
            if r.chance(1, 4):
                srcs.add(r.below(len(stages)))
            for t in ids:
                hs = []
                for s in sorted(srcs):
                    sid, sgrouped = stages[s]
                    if sgrouped:
                        hs.append(sid[0])
                    else:
                        hs.append(sid[(t - ids[0]) % len(sid)])
                if hs and r.chance(1, 6):
                    # the same dependency twice, as Cogroup(x, x) or a self-join compiles to
                    hs = hs + [hs[r.below(len(hs))]]
                if hs and not r.chance(1, 10):
                    deps[t] = hs
        stages.append((ids, grouped))
    spec = "N %d" % n
    if deps:
        spec += " D " + " ".join("%d:%s" % (t, ",".join(map(str, hs))) for t, hs in sorted(deps.items()))
    for g in groups:
        spec += " G " + ",".join(map(str, g))
    roots = stages[-1][0]
    if r.chance(1, 4) and len(stages) > 1:
        roots = roots + stages[-2][0]
    return spec, n, roots


def gen(r, tier, sub):
    if sub == "C03":
        n = 3000 if tier == "quick" else 60000
        for _ in range(n):
            spec, nt, roots = gen_graph(r)
            ops = []
            if r.chance(1, 2):
                for t in range(nt):
                    if r.chance(1, 3):
                        ops.append("set %d %s" % (t, r.choice("iwroel")))
            for _ in range(r.rng(2, 30)):
                k = r.below(100)
                if k < 20:
                    ops.append("enq %d" % (r.choice(roots) if r.chance(4, 5) else r.below(nt)))
                elif k < 40:
                    ops.append("run")
                elif k < 85:
                    ops.append("retp %d %s" % (r.below(8), r.choice("ooooolle" "wr")))
                elif k < 93:
                    ops.append("set %d %s" % (r.below(nt), r.choice("iwroel")))
                else:
                    ops.append("ret %d" % r.below(nt))
            yield spec + " ; " + " ; ".join(ops)
    else:
        # directed: a task is lost a+b >= 5 times in all, but never 5 times in a row (it succeeds in between and its
        # output is lost again later): the evaluation must succeed
        for a in range(1, 5):
            for b in range(max(1, 5 - a), 5):
                k = a + 2          # the Run call at which the consumer first runs
                yield "N 2 D 1:0 ; script 0=%so%so 1=lo ; lose %d=0 ; roots 1" % ("l" * a, "l" * b, k)
                yield "N 3 D 1:0 2:1 ; script 0=%so%so 1=lo 2=o ; lose %d=0 ; roots 2" % ("l" * a, "l" * b, k)
        # directed: two concurrent evaluations share a slow task; one of them is abandoned (another of its tasks fails
        # fatally, or is lost five times) while the shared task still runs: the other must still see it complete
        # directed: a task that lists one dependency twice (Cogroup(x, x)) next to an independent slow task: it must be handed
        # out as soon as the dependency completes, not only when everything else has returned
        yield "N 4 D 1:0,0 3:1,2 ; script 2=s ; roots 3"
        yield "N 3 D 1:0,0 ; script 2=s ; roots 1,2"
        for bad in ("e", "lllll", "le"):
            yield "N 2 ; script 0=s 1=%s ; roots 0,1 | 0" % bad
            yield "N 3 D 2:0 ; script 0=s 1=%s ; roots 1,2 | 2" % bad
            yield "N 3 D 2:0 ; script 0=s 1=%s 2=s ; roots 0,1 | 2 | 0" % bad
            yield "N 4 D 2:0 3:2 ; script 0=s 1=%s ; roots 3,1 | 3" % bad
        n = 600 if tier == "quick" else 12000
        for i in range(n):
            spec, nt, roots = gen_graph(r)
            parts = [spec]
            if r.chance(1, 3):
                ini = ["%d=%s" % (t, r.choice("oooll" "e")) for t in range(nt) if r.chance(1, 3)]
                if ini:
                    parts.append("init " + " ".join(ini))
            if r.chance(2, 3):
                sc = []
                for t in range(nt):
                    if r.chance(1, 3):
                        k = r.below(10)
                        if k < 2:
                            s = "l" * r.rng(0, 2) + "s"
                        elif k < 6:
                            s = "l" * r.rng(1, 4) + "o"
                        elif k < 8:
                            s = "l" * r.rng(5, 6) + "o"
                        else:
                            s = "l" * r.rng(0, 2) + "e"
                        sc.append("%d=%s" % (t, s))
                if sc:
                    parts.append("script " + " ".join(sc))
            if r.chance(1, 4):
                parts.append("lose " + " ".join("%d=%d" % (r.rng(1, nt + 2), r.below(nt)) for _ in range(r.rng(1, 2))))
            rs = ",".join(map(str, roots))
            if r.chance(1, 4):
                rs += " | " + ",".join(map(str, roots if r.chance(1, 2) else roots[:1]))
                if r.chance(1, 3):
                    rs += " | " + str(r.below(nt))
            parts.append("roots " + rs)
            yield " ; ".join(parts)


def nontrivial(case, obs):
    return " D " in case and any(w in case for w in ("retp", "script", "init", "set"))


def shrink_candidates(case):
    parts = case.split(" ; ")
    for i in range(len(parts) - 1, 0, -1):
        if not parts[i].startswith("roots"):
            yield " ; ".join(parts[:i] + parts[i + 1:])


def finding_key(case, obs, model, oracle):
    # D14: with two concurrent evaluations sharing a task, the consecutive-loss counter is kept by
    # whichever evaluator's watcher goroutine wins the race, so losses are missed or counted twice.
    two = "|" in case.split("roots")[-1]
    if two and ("lost 5 times in a row" in oracle or "the outcome script requires" in oracle):
        import re
        if re.search(r"=l{3,}", case):
            return "consecutive-lost-miscount-two-concurrent-evaluations"
    return None


def t2(chk, wc, tier, seed):
    """The retry bound and its comparison, and the arms of Enqueue's state switch, regenerated from eval.go."""
    import re
    import vlib
    gen = []
    rc, out, err = vlib.gofacts(wc, "const", "exec/eval.go", "maxConsecutiveLost")
    gen.append("def maxConsecutiveLostG : Nat := %s" % (out.strip() if rc == 0 and out.strip().isdigit() else "0"))
    src = open(wc.repo + "/exec/eval.go").read()
    m = re.search(r"task\.consecutiveLost\s*(>=|>|==)\s*maxConsecutiveLost", src)
    gen.append('def lostCmpG : String := "%s"' % (m.group(1) if m else "?"))
    # arms of `switch task.State()` in (*state).Enqueue: which states are "nothing to wait for"
    body = src[src.index("func (s *state) Enqueue"):]
    body = body[:body.index("\nfunc ", 10)]
    arms = re.findall(r"case ([A-Za-z, ]+):", body)
    first = arms[0].replace(" ", "") if arms else "?"
    gen.append('def enqueueDoneArmG : String := "%s"' % first)
    ties = [
        ("maxLost_tie", "theorem maxLost_tie : maxConsecutiveLostG = 5 ∧ lostCmpG = \">=\" := by decide", "exec/eval.go maxConsecutiveLost and its comparison"),
        ("doneArm_tie", "theorem doneArm_tie : enqueueDoneArmG = \"TaskOk\" := by decide", "exec/eval.go (*state).Enqueue: only TaskOk counts as done"),
    ]
    vlib.t2_check(chk, wc, "C03", ["BS.Model.Eval"], "\n".join(gen), ties)
