"""C07 — row-stream codec: round trips over the type universe; every single-bit flip and every
truncation point of small streams (exhaustive per stream); random bursts on larger ones."""
PID = "C07"
CASE_LIMIT = {"C07": 15}   # seconds: these cases are function calls, not sessions
PARALLEL = {"C07": 8}
RULE = ("round trips: random streams of 0..6 batches (0..9 rows, incl. empty batches) over 1-3 columns of the kind universe "
        "(built-in ints/floats/strings/bytes/bools, gob structs with some or all fields zero, pointers, slices, arrays, maps, a "
        "custom-codec column; a third of the composite values are zero values), random "
        "destination sizes 1..12; damage: for small streams every single-bit flip and every truncation point "
        "(one case per stream enumerates all positions: exhaustive for that stream), random single flips, truncations "
        "and 2..6 byte bursts on larger streams; non-trivial = at least two batches or damage")
TRUST = ["encoding/gob: Decode(Encode(v)) = v and a decoder consumes exactly the bytes its encoder wrote",
         "hash/crc32 (the burst-detection property of CRC-32 is not proved here; every single-bit flip is enumerated instead)"]
ASSUMPTIONS = ["gob cannot encode nil pointer elements: pointer columns carry non-nil values",
               "damage that changes gob's own framing is covered by enumeration, not by a theorem (BS.Codec abstracts a batch "
               "as intact or damaged)"]

KINDS = ["i64", "i32", "i16", "i8", "u8", "u16", "u32", "u64", "int", "str", "f64", "f32", "bool", "bytes", "st", "pt", "sl", "arr", "cc", "mp",
         "st", "sl", "mp"]   # gob-decoded composite kinds twice: they are decoded into (possibly reused) memory


def gen_stream(r, maxb, maxrows):
    nk = r.rng(1, 3)
    kinds = [r.choice(KINDS) for _ in range(nk)]
    bs = []
    for _ in range(r.rng(0, maxb)):
        rows = []
        for _ in range(r.choice([0, 1, 1, 2, 3, r.rng(0, maxrows)])):
            rows.append(",".join(str(r.below(2) if k == "bool" else (r.rng(1, 90) if k == "pt" else
                                     (r.choice([0, 0, r.rng(0, 90)]) if k in ("st", "sl", "mp", "bytes", "str") else r.rng(0, 90)))) for k in kinds))
        bs.append("B " + "|".join(rows) if rows else "B")
    dest = " ".join(str(r.rng(1, 12)) for _ in range(r.rng(1, 3)))
    return "K %s ; %s ; DEST %s" % (",".join(kinds), " ; ".join(bs) if bs else "B", dest)


def gen(r, tier):
    n = 1500 if tier == "quick" else 30000
    for _ in range(n):
        yield gen_stream(r, 6, 9) + " ; DMG none"
    n = 40 if tier == "quick" else 600
    for i in range(n):
        yield gen_stream(r, 3, 3) + " ; DMG " + ("allflips" if i % 2 == 0 else "alltruncs")
    n = 1500 if tier == "quick" else 40000
    for _ in range(n):
        k = r.below(3)
        if k == 0:
            d = "flip %d" % r.rng(0, 3000)
        elif k == 1:
            d = "trunc %d" % r.rng(0, 400)
        else:
            d = "burst %d %d" % (r.rng(0, 300), r.rng(2, 6))
        yield gen_stream(r, 6, 9) + " ; DMG " + d


def nontrivial(case, obs):
    return case.count(" B") >= 2 or "DMG none" not in case


def shrink_candidates(case):
    parts = case.split(" ; ")
    for i, p in enumerate(parts):
        if p.startswith("B") and len(parts) > 4:
            yield " ; ".join(parts[:i] + parts[i + 1:])
