"""C07 — row-stream codec: round trips over the type universe; every single-bit flip and every
truncation point of small streams (exhaustive per stream); random bursts on larger ones."""
PID = "C07"
CASE_LIMIT = {"C07": 45, "C07crc": 45}
SUBS = ["C07", "C07crc"]   # seconds: these cases are function calls, not sessions
PARALLEL = {"C07": 8}
EXTRA_TARGETS = ("BS.Properties.C07c",)
RULE = ("round trips: random streams of 0..6 batches (0..9 rows, incl. empty batches) over 1-3 columns of the kind universe "
        "(built-in ints/floats/strings/bytes/bools, gob structs with some or all fields zero, pointers, slices, arrays, maps, a "
        "custom-codec column; a third of the composite values are zero values), random "
        "destination sizes 1..12; half of the streams are written from views (offset > 0) of one larger frame; damage: for small streams every single-bit flip and every truncation point "
        "(one case per stream enumerates all positions: exhaustive for that stream), random single flips, truncations "
        "and 2..6 byte bursts on larger streams; C07crc: random byte strings of 0..300 bytes, their CRC-32 as the codec computes "
        "it (NewIEEE, Reset, piecewise Write, Sum32) against the Lean model BS.Crc.crc32, and a copy damaged in a window of "
        "1..4 bytes (every single-bit flip for short strings); non-trivial = at least two batches or damage")
TRUST = ["encoding/gob: Decode(Encode(v)) = v and a decoder consumes exactly the bytes its encoder wrote",
         "hash/crc32 is compared with the Lean model BS.Crc.crc32 on every C07crc case; the model's burst detection (at most 32 "
         "consecutive bits) is proved (BS.Crc.checksum_detects_*); longer damage escapes a CRC with probability 2^-32 (not proved)"]
ASSUMPTIONS = ["gob cannot encode nil pointer elements: pointer columns carry non-nil values",
               "damage that changes gob's own framing is covered by enumeration, not by a theorem (BS.Codec abstracts a batch "
               "as intact or damaged)"]

KINDS = ["i64", "i32", "i16", "i8", "u8", "u16", "u32", "u64", "int", "str", "f64", "f32", "bool", "bytes", "st", "pt", "sl", "arr", "cc", "mp",
         "st", "sl", "mp", "s3", "s3"]   # gob-decoded composite kinds twice: they are decoded into (possibly reused) memory


def gen_stream(r, maxb, maxrows):
    nk = r.rng(1, 3)
    kinds = [r.choice(KINDS) for _ in range(nk)]
    bs = []
    for _ in range(r.rng(0, maxb)):
        rows = []
        for _ in range(r.choice([0, 1, 1, 2, 3, r.rng(0, maxrows)])):
            rows.append(",".join(str(r.below(2) if k == "bool" else (r.rng(1, 90) if k == "pt" else
                                     (r.choice([0, 0, r.rng(0, 90)]) if k in ("st", "sl", "mp", "bytes", "str", "s3") else r.rng(0, 90)))) for k in kinds))
        bs.append("B " + "|".join(rows) if rows else "B")
    dest = " ".join(str(r.rng(1, 12)) for _ in range(r.rng(1, 3)))
    # half of the streams are written from views (offset > 0) of one larger frame, as the spiller and the task writers do
    view = " ; VIEW %d" % r.choice([0, 1, 3, 7]) if r.chance(1, 2) else ""
    return "K %s ; %s ; DEST %s%s" % (",".join(kinds), " ; ".join(bs) if bs else "B", dest, view)


def gen_crc(r, tier):
    n = 600 if tier == "quick" else 20000
    for i in range(n):
        ln = r.choice([0, 1, 2, 3, 4, 5, 8, 9, 16, 17, r.rng(0, 40), r.rng(0, 300)])
        data = bytes(r.below(256) for _ in range(ln))
        if ln == 0 or i % 5 == 0:
            yield "CRC %s" % (data.hex() or "-")
            continue
        w = r.rng(1, min(4, ln))
        pos = r.rng(0, ln - w)
        if r.chance(1, 2):
            # a single flipped bit
            new = bytearray(data[pos:pos + 1])
            new[0] ^= 1 << r.below(8)
        else:
            new = bytearray(r.below(256) for _ in range(w))
            if r.chance(1, 3):
                new = bytearray(data[pos:pos + w])   # sometimes no damage at all
        yield "CRC %s ; DMG %d %s" % (data.hex(), pos, bytes(new).hex())
    # every single-bit flip of a few short strings
    for ln in (1, 2, 5, 9):
        data = bytes(r.below(256) for _ in range(ln))
        for bitpos in range(8 * ln):
            new = bytes([data[bitpos // 8] ^ (1 << (bitpos % 8))])
            yield "CRC %s ; DMG %d %s" % (data.hex(), bitpos // 8, new.hex())


def gen(r, tier, sub):
    if sub == "C07crc":
        yield from gen_crc(r, tier)
        return
    n = 1500 if tier == "quick" else 30000
    for _ in range(n):
        yield gen_stream(r, 6, 9) + " ; DMG none"
    n = 40 if tier == "quick" else 600
    for i in range(n):
        yield gen_stream(r, 3, 3) + " ; DMG " + ("allflips" if i % 2 == 0 else "alltruncs")
    n = 1500 if tier == "quick" else 40000
    for _ in range(n):
        k = r.below(3)
        if k == 0:
            d = "flip %d" % r.rng(0, 3000)
        elif k == 1:
            d = "trunc %d" % r.rng(0, 400)
        else:
            d = "burst %d %d" % (r.rng(0, 300), r.rng(2, 6))
        yield gen_stream(r, 6, 9) + " ; DMG " + d


def nontrivial(case, obs):
    if case.startswith("CRC"):
        return "DMG" in case
    return case.count(" B") >= 2 or "DMG none" not in case


def shrink_candidates(case):
    parts = case.split(" ; ")
    for i, p in enumerate(parts):
        if p.startswith("B") and len(parts) > 4:
            yield " ; ".join(parts[:i] + parts[i + 1:])


def t2(chk, wc, tier, seed):
    """where and how the codec uses the checksum, regenerated from sliceio/codec.go: both ends use the IEEE polynomial, the
    encoder resets the hash before a batch and writes its sum after it, the decoder resets before a batch, compares the sum
    it computed with the transmitted one and reports a mismatch as an Integrity error."""
    import re
    import vlib
    src = open(wc.repo + "/sliceio/codec.go").read()
    def body(sig):
        i = src.index(sig)
        j = src.index("\n}\n", i)
        return src[i:j]
    enc = body("func (e *Encoder) Write(")
    rd = body("func (d *decodingReader) Read(")
    db = body("func (d *decodingReader) decodeBatch(")
    facts = {
        "newIEEE": len(re.findall(r"crc32\.NewIEEE\(\)", src)),
        "otherPoly": len(re.findall(r"crc32\.(MakeTable|Castagnoli|Koopman|New\()", src)),
        "encResetFirst": int(enc.split("\n")[1].strip() == "e.crc.Reset()"),
        "encSumLast": int(enc.rstrip().split("\n")[-1].strip() == "return e.enc.Encode(e.crc.Sum32())"),
        "encTee": int("io.MultiWriter(w, crc)" in src),
        "decTee": int("io.TeeReader(r, io.MultiWriter(crc, &d.nread))" in src),
        "decResetBeforeHeader": int(rd.find("d.crc.Reset()") != -1 and rd.find("d.crc.Reset()") < rd.find("d.dec.Decode(&n)")),
        "decSumBeforeStored": int(db.find("sum := d.crc.Sum32()") != -1 and db.find("sum := d.crc.Sum32()") < db.find("d.dec.Decode(&decoded)")),
        "decMismatchIsIntegrity": int(re.search(r"if sum != decoded \{\s*return errors\.E\(errors\.Integrity,", db) is not None),
    }
    gen = ["def crcFactsG : List (String × Nat) := [%s]" % ", ".join('("%s", %d)' % kv for kv in sorted(facts.items()))]
    want = ('[("decMismatchIsIntegrity", 1), ("decResetBeforeHeader", 1), ("decSumBeforeStored", 1), ("decTee", 1), ("encResetFirst", 1), '
            '("encSumLast", 1), ("encTee", 1), ("newIEEE", 2), ("otherPoly", 0)]')
    ties = [("crc_use_tie", "theorem crc_use_tie : crcFactsG = %s := by decide" % want,
             "sliceio/codec.go: the checksum of BS.Crc (IEEE) is computed over exactly the batch bytes on both ends and a mismatch is an Integrity error")]
    vlib.t2_check(chk, wc, "C07", ["BS.Model.Crc"], "\n".join(gen), ties)
