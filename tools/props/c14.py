"""C14 — cluster manager: schedule() placement (exhaustive small configs) and a live machineManager
on testsystem monitored against the accounting invariant."""
import itertools

PID = "C14"
SUBS = ["C14", "C14live", "C14e2e"]
EXTRA_TARGETS = ("BS.Properties.C14l",)
PARALLEL = {"C14live": 8, "C14e2e": 8}
RETRY_FLAKY = ("C14live",)
RULE = ("schedule(): every configuration of <=3 (quick) / <=4 (thorough) requests with priority<=2, procs 1..4 and <=3 machines "
        "with capacity<=4, load<=capacity, built by heap.Push in the listed order (exhaustive), plus random larger ones; "
        "live manager: random offer/cancel/done(ok|remote|transport)/kill-machine sequences for machine sizes 1..4, max-load in "
        "{0,30,50,95,100,150}% and parallelism 1..12, observed at quiescence after every op and monitored by the Lean "
        "oracle (accounting, capacity, probation, nothing-grantable-left-waiting, machine-count bound); C14e2e: sessions on "
        "clusters of 1-, 2- and 4-proc machines (max load 50..100%) running programs whose Maps carry Procs(1..8) and Exclusive "
        "pragmas (more procs than a machine has, several invocations, results reused), rows judged as C01 and, once everything "
        "has completed, every machine that holds a task must have exactly 0 procs booked; "
        "non-trivial = some request does not fit the first machine / sequence contains done or cancel")
TRUST = ["container/heap pops a Less-minimal element (ties arbitrary)", "bigmachine testsystem starts machines on request",
         "quiescence is detected by a 40ms-stable snapshot (timing assumption of the harness, not of the theorem)"]
ASSUMPTIONS = ["goroutine scheduling of the manager loop is observed only at quiescent points",
               "exit-path pairing of m.Done in (*bigmachineExecutor).Run is checked by T2 facts, not by the event model"]


def gen_e2e(r, tier):
    rows = "1:1 2:2 3:3 4:4 5:5 6:6 7:7 8:8 9:9"
    # local executor: an Exclusive operator anywhere in a task's pipeline gives the task all procs
    rows16 = " ".join("%d:%d" % (i, i) for i in range(32))
    for p in (2, 4):
        for prog in ("N0=reader 4 2 %s ; N1=mapx N0 id ; OUT N1", "N0=reader 4 2 %s ; N1=mapx N0 id ; N2=map N1 inc ; N3=filter N2 all ; OUT N3",
                     "N0=const 4 %s ; N1=map N0 inc ; N2=mapx N1 id ; N3=map N2 id ; OUT N3", "N0=const 3 %s ; N1=reshuffle N0 ; N2=mapx N1 id ; N3=map N2 inc ; OUT N3"):
            yield "local P%d ;; run %s ;; xconc" % (p, prog % rows16)
    n = 40 if tier == "quick" else 800
    for i in range(n):
        cfg = "bm M%d P%d L%d" % (r.choice([1, 2, 2, 4]), r.choice([1, 2, 4, 6]), r.choice([50, 95, 100]))
        ops = []
        nres = 0
        for _ in range(r.rng(1, 3)):
            nsh = r.rng(1, 4)
            stmts = ["N0=const %d %s" % (nsh, rows)] if nres == 0 or r.chance(1, 2) else ["N0=map R%d id" % r.below(nres)]
            for k in range(r.rng(1, 3)):
                src = "N%d" % (len(stmts) - 1)
                kind = r.below(10)
                if kind < 5:
                    stmts.append("N%d=mapp %s %s %d" % (len(stmts), src, r.choice(["inc", "id"]), r.choice([1, 2, 3, 4, 5, 8])))
                elif kind < 7:
                    stmts.append("N%d=mapx %s id" % (len(stmts), src))
                elif kind < 9:
                    stmts.append("N%d=reduce %s add" % (len(stmts), src))
                else:
                    stmts.append("N%d=reshuffle %s" % (len(stmts), src))
            ops.append("run %s ; OUT N%d" % (" ; ".join(stmts), len(stmts) - 1))
            nres += 1
            if r.chance(1, 2):
                ops.append("procs")
        if ops[-1] != "procs":
            ops.append("procs")
        yield cfg + " ;; " + " ;; ".join(ops)


def gen(r, tier, sub):
    if sub == "C14e2e":
        yield from gen_e2e(r, tier)
        return
    if sub == "C14":
        nreq = 3 if tier == "quick" else 4
        reqs = [(p, n) for p in range(0, 3) for n in range(1, 5)]
        machs = [(c, u) for c in range(1, 5) for u in range(0, c + 1)]
        if tier == "quick":
            reqs = [(p, n) for p in range(0, 2) for n in (1, 2, 4)]
            machs = [(c, u) for c in (2, 4) for u in range(0, c + 1)]
        for nr in range(0, nreq + 1):
            for rs in itertools.combinations_with_replacement(reqs, nr):
                for nm in range(0, 3 if tier == "quick" else 4):
                    for ms in itertools.combinations_with_replacement(machs, nm):
                        # one fixed push order per multiset, plus the reversed order
                        for rr, mm in ((rs, ms), (rs[::-1], ms[::-1])):
                            yield "R %s M %s" % (" ".join("%d:%d" % x for x in rr), " ".join("%d:%d" % x for x in mm))
        for _ in range(3000 if tier == "quick" else 50000):
            rs = [(r.rng(0, 3), r.rng(1, 8)) for _ in range(r.rng(0, 9))]
            ms = []
            for _ in range(r.rng(0, 7)):
                c = r.rng(1, 8)
                ms.append((c, r.rng(0, c)))
            yield "R %s M %s" % (" ".join("%d:%d" % x for x in rs), " ".join("%d:%d" % x for x in ms))
    else:
        # directed: a machine is put on probation by a transport error and then stops; its capacity must be replaced
        for mp, maxp in ((2, 4), (1, 3), (3, 6)):
            offers = " ; ".join("offer %d 0 1" % i for i in range(maxp))
            more = " ; ".join("offer %d 0 1" % (maxp + i) for i in range(maxp))
            rest = " ; ".join("done %d ok" % i for i in range(1, maxp))
            yield "P %d MAXP %d LOAD 100 ; %s ; done 0 transport ; kill m0 ; %s ; %s" % (mp, maxp, offers, rest, more)
            yield "P %d MAXP %d LOAD 100 ; %s ; kill m0 ; done 0 transport ; %s ; %s" % (mp, maxp, offers, rest, more)
        n = 160 if tier == "quick" else 3000
        for _ in range(n):
            mp = r.rng(1, 4)
            load = r.choice([0, 30, 50, 95, 100, 100, 100, 150])
            maxp = r.rng(1, 12)
            machprocs = max(1, mp * load // 100)
            ops = []
            rid = 0
            live = []      # offered and possibly granted
            kills = r.chance(1, 4)
            for _ in range(r.rng(3, 12)):
                k = r.below(100)
                if kills and live and k >= 92:
                    # a machine stops (often right after it was put on probation by a transport error)
                    ops.append("kill m%d" % r.below(2))
                    continue
                if k < 55 or not live:
                    procs = r.rng(1, machprocs) if r.chance(4, 5) else machprocs
                    ops.append("offer %d %d %d" % (rid, r.rng(0, 2), procs))
                    live.append(rid)
                    rid += 1
                elif k < 88:
                    x = r.choice(live)
                    live.remove(x)
                    ops.append("done %d %s" % (x, r.choice(["ok", "ok", "ok", "remote", "transport"])))
                else:
                    x = r.choice(live)
                    live.remove(x)
                    ops.append("cancel %d" % x)
            yield "P %d MAXP %d LOAD %d ; %s" % (mp, maxp, load, " ; ".join(ops))


def nontrivial(case, obs):
    if ";;" in case:
        return "mapp" in case or "mapx" in case
    if case.startswith("R"):
        return obs != "none" or " M " in case
    return "done" in case or "cancel" in case


def shrink_candidates(case):
    if ";;" in case:
        return
    if case.startswith("R"):
        toks = case.split()
        for i in range(len(toks)):
            if ":" in toks[i]:
                yield " ".join(toks[:i] + toks[i + 1:])
    else:
        parts = case.split(" ; ")
        if len(parts) > 2:
            yield " ; ".join(parts[:-1])


def t2(chk, wc, tier, seed):
    import json
    import vlib
    gen = []
    ties = []
    # (a) every exit path of (*bigmachineExecutor).Run after the machine is granted returns the procs exactly once
    rc, out, err = vlib.gofacts(wc, "paths", "exec/bigmachine.go", "bigmachineExecutor.Run", "m = <-offerc", "m.Done")
    if rc != 0:
        gen.append("-- gofacts paths failed: " + err.strip().replace("\n", " "))
        paths = None
    else:
        paths = [e for e in json.loads(out) if e["started"]]
        gen.append("/-- (line, m.Done calls) for every exit of (*bigmachineExecutor).Run reached after `m = <-offerc` -/")
        gen.append("def runExitPaths : List (Nat × Nat) := [%s]" % ", ".join("(%d, %d)" % (e["line"], e["count"]) for e in paths))
    ties.append(("procs_returned_once",
                 "theorem procs_returned_once : runExitPaths ≠ [] ∧ ∀ p ∈ runExitPaths, p.2 = 1 := by decide",
                 "exec/bigmachine.go (*bigmachineExecutor).Run: m.Done on every exit path"))
    # (a') the amount handed back is the amount that was asked for: the procs argument of mgr.Offer and of every m.Done
    import re
    src = open(wc.repo + "/exec/bigmachine.go").read()
    body = src[src.index("func (b *bigmachineExecutor) Run("):]
    body = body[:body.index("\n}\n")]
    offer = re.findall(r"mgr\.Offer\(([^\n]*)\)\s*$", body, re.M)
    offer_arg = offer[0].rsplit(",", 1)[1].strip() if offer and "," in offer[0] else "?"
    done_args = [a.strip() for a in re.findall(r"m\.Done\(([^,\n]*),", body)]
    after = body[body.index("mgr.Offer("):] if "mgr.Offer(" in body else ""
    reassigned = len(re.findall(r"(?m)^\s*%s\s*(=|\+=|-=|:=)[^=]" % re.escape(offer_arg), after)) if re.fullmatch(r"\w+", offer_arg) else 1
    gen.append('def offerArgG : String := "%s"' % offer_arg.replace('"', "'"))
    gen.append("def doneArgsG : List String := [%s]" % ", ".join('"%s"' % a.replace('"', "'") for a in done_args))
    gen.append("def offerArgReassignedG : Nat := %d" % reassigned)
    gen.append("def offerArgIsVariableG : Nat := %d" % (1 if re.fullmatch(r"[A-Za-z_]\w*", offer_arg) else 0))
    ties.append(("procs_same_amount",
                 "theorem procs_same_amount : doneArgsG ≠ [] ∧ (∀ a ∈ doneArgsG, a = offerArgG) ∧ "
                 "offerArgIsVariableG = 1 ∧ offerArgReassignedG = 0 := by decide",
                 "exec/bigmachine.go (*bigmachineExecutor).Run: the variable passed to mgr.Offer is the one passed to every m.Done, and is "
                 "not assigned in between"))
    # (b) the two heap orders
    for fn, name in (("scheduleRequestQ.Less", "reqLessG"), ("machineQ.Less", "machLessG")):
        rc, out, err = vlib.gofacts(wc, "kernel", "exec/slicemachine.go", fn, name)
        gen.append(out if rc == 0 else "-- gofacts kernel %s failed: %s" % (fn, err.strip()))
    ties.append(("reqLess_tie",
                 "theorem reqLess_tie (a b : BS.Cluster.Req) : reqLessG a.prio a.procs b.prio b.procs = BS.Cluster.reqLess a b := by\n"
                 "  unfold reqLessG BS.Cluster.reqLess; tie_kernel",
                 "exec/slicemachine.go scheduleRequestQ.Less"))
    ties.append(("machLess_tie",
                 "theorem machLess_tie (a b : BS.Cluster.Mach) (ha : a.used ≤ a.max) (hb : b.used ≤ b.max) :\n"
                 "    machLessG a.max a.used b.max b.used = BS.Cluster.machLess a b := by\n"
                 "  unfold machLessG BS.Cluster.machLess BS.Cluster.Mach.free; tie_kernel",
                 "exec/slicemachine.go machineQ.Less"))
    # (c) constants of the start decision
    rc, out, err = vlib.gofacts(wc, "const", "exec/slicemachine.go", "maxStartMachines")
    gen.append("def maxStartMachinesG : Nat := %s" % (out.strip() if rc == 0 and out.strip().isdigit() else "0"))
    ties.append(("maxStart_tie", "theorem maxStart_tie : maxStartMachinesG = 10 := by decide", "exec/slicemachine.go maxStartMachines"))
    # (d) local mode: the token protocol of (*localExecutor).Run / Start is the one BS.Limiter models
    def q(s):
        return '"%s"' % s.replace("\\", "\\\\").replace('"', "'")
    rc, out, err = vlib.gofacts(wc, "stmts", "exec/local.go", "localExecutor.Run")
    rc2, out2, err2 = vlib.gofacts(wc, "stmts", "exec/local.go", "localExecutor.Start")
    if rc != 0 or rc2 != 0:
        gen.append("-- gofacts stmts failed: " + (err + err2).strip().replace("\n", " "))
    else:
        st = json.loads(out)
        st2 = json.loads(out2)
        acq = [i for i, s in enumerate(st) if "l.limiter.Acquire(" in s["text"]]
        ia = acq[0] if acq else -1
        m = re.search(r"l\.limiter\.Acquire\(\s*\w+\s*,\s*([^)]*)\)", st[ia]["text"]) if ia >= 0 else None
        acq_arg = m.group(1).strip() if m else "?"
        nxt = st[ia + 1] if 0 <= ia < len(st) - 1 else {"kind": "", "text": ""}
        m = re.fullmatch(r"defer l\.limiter\.Release\((.*)\)", nxt["text"])
        rel_arg = m.group(1).strip() if m and nxt["kind"] == "DeferStmt" else "?"
        # the statements that give the amount its value, before the acquire
        init = [s["text"] for s in st[:max(ia, 0)] if re.match(r"%s\s*:?=" % re.escape(acq_arg), s["text"])]
        cond = [s["text"] for s in st[:max(ia, 0)] if s["kind"] == "IfStmt" and re.search(r"\b%s\s*=[^=]" % re.escape(acq_arg), s["text"])]
        later = [s["text"] for s in st[ia + 1:] if re.search(r"(^|[^\w.])%s\s*(=|\+=|-=|:=|\+\+|--)[^=]?" % re.escape(acq_arg), s["text"])] if ia >= 0 else ["?"]
        other_rel = [s["text"] for k, s in enumerate(st) if "limiter.Release(" in s["text"] and k != ia + 1]
        gen.append("def acquireArgG : String := %s" % q(acq_arg))
        gen.append("def deferredReleaseArgG : String := %s" % q(rel_arg))
        gen.append("def amountInitG : List String := [%s]" % ", ".join(q(x) for x in init))
        gen.append("def amountCondG : List String := [%s]" % ", ".join(q(x) for x in cond))
        gen.append("def amountAssignedLaterG : Nat := %d" % len(later))
        gen.append("def otherReleasesG : Nat := %d" % len(other_rel))
        gen.append("def acquireFailureReturnsG : Nat := %d" % (1 if ia >= 0 and st[ia]["returns"] else 0))
        gen.append("def startStmtsG : List String := [%s]" % ", ".join(q(s["text"]) for s in st2))
    ties.append(("limiter_protocol_tie",
                 "theorem limiter_protocol_tie : acquireArgG = \"n\" ∧ deferredReleaseArgG = acquireArgG ∧ amountInitG = [\"n := 1\"] ∧\n"
                 "    amountCondG = [\"if task.Pragma.Exclusive() { n = l.sess.p }\"] ∧ amountAssignedLaterG = 0 ∧ otherReleasesG = 0 ∧\n"
                 "    acquireFailureReturnsG = 1 ∧ startStmtsG = [\"l.sess = sess\", \"l.limiter.Release(sess.p)\", \"return\"] := by decide",
                 "exec/local.go (*localExecutor).Run/Start: the amount is 1 or sess.p when Exclusive (BS.Limiter.need), Start puts sess.p tokens in, the "
                 "release is deferred directly after the acquire with the same variable, which is not assigned again"))
    vlib.t2_check(chk, wc, "C14", ["BS.Model.Cluster", "BS.Tie.Tactic"], "\n".join(gen), ties)
