#!/usr/bin/env python3
"""Entry point registered in MANIFEST.json:  tools/check.py <Cxx> --tier quick|thorough [--replay file]

Decision procedure (DESIGN.md §4):
  A. proofs   lake build BS.Properties.<id>; axiom audit; forbidden-token grep
  B. tie T2   facts/kernels regenerated from the work copy, re-checked by Lean (where the property has them)
  C. tie T1   corpus + generated cases: real code (bsharness, built from /repo's working tree)
              vs Lean model (bsdriver); the Lean oracle judges the implementation's observations
  D. verdict  exit 0 | VIOLATION property=<id> replay=<file> [no-failing-input-found]
"""
import argparse
import importlib
import json
import os
import sys
import time

sys.path.insert(0, os.path.dirname(os.path.abspath(__file__)))
import vlib  # noqa: E402


BATCH = 400
CASE_LIMIT = {}      # (pid or sub) -> seconds one case may take (default 240)
MAX_HANGS = 3        # after that many cases that did not return, the remaining cases of the check are not run
HANGS = [0]


def run_cases(wc, pid, cases, timeout=900, sub=None, par=1):
    """cases: list of case texts.  Returns list of (obs, model, oracle, same)."""
    if par > 1 and len(cases) > par:
        from concurrent.futures import ThreadPoolExecutor
        chunks = [cases[i::par] for i in range(par)]
        with ThreadPoolExecutor(par) as ex:
            parts = list(ex.map(lambda ch: run_cases(wc, pid, ch, timeout, sub, 1), chunks))
        res = [None] * len(cases)
        for k, part in enumerate(parts):
            for j, r in enumerate(part):
                res[k + j * par] = r
        return res
    hname = sub or pid
    # long-lived harness processes accumulate sockets and goroutines of shut-down sessions: restart every BATCH cases
    if len(cases) > BATCH:
        res = []
        for i in range(0, len(cases), BATCH):
            res.extend(run_cases(wc, pid, cases[i:i + BATCH], timeout, sub, 1))
        return res
    obs = [None] * len(cases)
    start = 0
    if HANGS[0] >= MAX_HANGS:
        obs = ["HANG not run: %d earlier cases did not return" % HANGS[0]] * len(cases)
        start = len(cases)
    limit = CASE_LIMIT.get(sub or pid)
    xenv = {"VERIF_CASE_LIMIT": str(limit)} if limit else None
    # the harness may die on a case (runtime fatal error): mark it CRASH and go on
    while start < len(cases):
        inp = "".join("%d %s\n" % (i, cases[i]) for i in range(start, len(cases)))
        try:
            p = wc.run_harness(["run", hname], inp, timeout=timeout, extra_env=xenv)
            out, rc, err = p.stdout, p.returncode, p.stderr
        except Exception as e:  # timeout
            out = getattr(e, "stdout", None) or ""
            if isinstance(out, bytes):
                out = out.decode(errors="replace")
            rc, err = -9, "timeout"
        last = start - 1
        for line in out.split("\n"):
            if "\t" not in line:
                continue
            i, o = line.split("\t", 1)
            try:
                i = int(i)
            except ValueError:
                continue
            obs[i] = o
            last = max(last, i)
        if rc == 0 and last == len(cases) - 1:
            break
        if rc == 3 and obs[last] is not None and obs[last].startswith("HANG"):
            # the harness gave up on case `last` (reported) and exited: go on with the next one
            start = last + 1
            HANGS[0] += 1
            if HANGS[0] >= MAX_HANGS:
                for i in range(start, len(cases)):
                    obs[i] = "HANG not run: %d earlier cases did not return" % HANGS[0]
                break
            continue
        bad = last + 1
        if bad >= len(cases):
            break
        tail = (err or "").strip().split("\n")
        msg = tail[0][:160] if tail and tail[0] else "rc=%s" % rc
        for ln in tail:   # the Go runtime's own report, if any
            if ln.startswith("panic:") or ln.startswith("fatal error:"):
                msg = ln[:200]
                break
        obs[bad] = ("HANG " if rc == -9 else "CRASH ") + msg.replace("\t", " ")
        start = bad + 1
    lines = "".join("%d\t%s\t%s\n" % (i, cases[i], obs[i] if obs[i] is not None else "MISSING") for i in range(len(cases)))
    dout = vlib.run_driver([hname], lines)
    res = [None] * len(cases)
    for line in dout.split("\n"):
        parts = line.split("\t")
        if len(parts) != 4:
            continue
        try:
            i = int(parts[0])
        except ValueError:
            continue
        o = obs[i] if obs[i] is not None else "MISSING"
        if o.startswith("HANG"):
            # no judge accepts a case that did not come back
            res[i] = (o, parts[1], "the implementation did not return", False)
            continue
        res[i] = (o, parts[1], parts[2], parts[3] == "same")
    for i in range(len(cases)):
        if res[i] is None:
            res[i] = (obs[i] or "MISSING", "DRIVER-MISSING", "driver-missing", False)
    return res


def shrink(wc, pid, case, cand_fn, still_fails, budget=200, sub=None):
    """Greedy delta debugging: cand_fn(case) yields smaller cases."""
    cur = case
    steps = 0
    improved = True
    while improved and steps < budget:
        improved = False
        cands = list(cand_fn(cur))
        if not cands:
            break
        # evaluate a batch at once
        cands = cands[: max(1, budget - steps)]
        res = run_cases(wc, pid, cands, sub=sub)
        steps += len(cands)
        for c, r in zip(cands, res):
            if still_fails(r):
                cur = c
                improved = True
                break
    return cur


def generic_t1(chk, wc, mod, tier, seed):
    pid = mod.PID
    rng = vlib.SplitMix(seed)
    subs = getattr(mod, "SUBS", [None])
    for sub in subs:
        corpus = []
        cdir = os.path.join(vlib.VERIF, "corpus", pid)
        if os.path.isdir(cdir):
            for f in sorted(os.listdir(cdir)):
                if sub is None or f.startswith(sub + "."):
                    for line in open(os.path.join(cdir, f)):
                        line = line.rstrip("\n")
                        if line and not line.startswith("#"):
                            corpus.append(line)
        gen = list(mod.gen(rng.fork(), tier, sub) if sub else mod.gen(rng.fork(), tier))
        cases = corpus + gen
        t0 = time.time()
        res = run_cases(wc, pid, cases, sub=sub, timeout=getattr(mod, "TIMEOUT", {}).get(tier, 1500),
                        par=getattr(mod, "PARALLEL", {}).get(sub or pid, 1))
        vlib.log("%s%s: %d cases in %.1fs" % (pid, "/" + sub if sub else "", len(cases), time.time() - t0))
        nfail = 0
        for c, (obs, model, oracle, same) in zip(cases, res):
            nt = mod.nontrivial(c, obs) if hasattr(mod, "nontrivial") else True
            chk.count_case(c, nt)
            chk.cov["traces_validated_against_impl"] += 1
            chk.sample({"case": c[:400], "impl": obs[:300], "oracle": oracle})
            bad_oracle = oracle != "ok"
            bad_tie = (not bad_oracle) and not same
            if not (bad_oracle or bad_tie):
                continue
            if sub in getattr(mod, "RETRY_FLAKY", ()):
                # timing-dependent observation: a failure counts only if it repeats when the case runs alone
                again = [run_cases(wc, pid, [c], sub=sub)[0] for _ in range(2)]
                if any(r[2] == "ok" and r[3] for r in again):
                    chk.cov["flaky_reruns"] = chk.cov.get("flaky_reruns", 0) + 1
                    continue
            # a failure that matches an open known finding is recorded as such and does not use up one of the (few) failures
            # that are shrunk and reported — a real violation further down the case list must not be crowded out
            if hasattr(mod, "finding_key"):
                k0 = mod.finding_key(c, obs, model, oracle)
                if k0 and chk.is_known(k0):
                    chk.cov["known_finding_cases"] = chk.cov.get("known_finding_cases", 0) + 1
                    continue
            nfail += 1
            if nfail > 3:
                continue
            # known-finding matcher is evaluated on the shrunk case
            if obs.startswith("HANG"):
                small = c      # every candidate would wait for the limit again
            elif hasattr(mod, "shrink_candidates"):
                if bad_oracle:
                    small = shrink(wc, pid, c, mod.shrink_candidates, lambda r: r[2] != "ok", sub=sub)
                else:
                    small = shrink(wc, pid, c, mod.shrink_candidates, lambda r: r[2] == "ok" and not r[3], sub=sub)
            else:
                small = c
            (o2, m2, or2, _s2) = (obs, model, oracle, same) if obs.startswith("HANG") else run_cases(wc, pid, [small], sub=sub)[0]
            if or2 == "ok" and _s2:
                # not reproduced on re-run (timing-dependent): report the failing run itself
                small, o2, m2, or2 = c, obs, model, oracle
            body = {
                "sub": sub,
                "case": small,
                "original_case": c,
                "original_impl_observation": obs,
                "original_oracle": oracle,
                "impl_observation": o2,
                "model_observation": m2,
                "oracle": or2,
                "replay_cmd": "python3 tools/check.py %s --replay <this file>" % pid,
            }
            if hasattr(mod, "finding_key"):
                k = mod.finding_key(small, o2, m2, or2)
                if k:
                    body["finding_key"] = k
            if bad_oracle:
                chk.violation("impl-counterexample", body, found_input=True)
            else:
                # the correspondence broke but the oracle accepts: search harder (§4)
                found = None
                if hasattr(mod, "targeted"):
                    tc = list(mod.targeted(rng.fork(), small, sub) if sub else mod.targeted(rng.fork(), small))
                    tr = run_cases(wc, pid, tc, sub=sub)
                    chk.cov["evaluations"] += len(tc)
                    for c3, r3 in zip(tc, tr):
                        if r3[2] != "ok":
                            found = (c3, r3)
                            break
                if found:
                    body.update({"case": found[0], "impl_observation": found[1][0], "model_observation": found[1][1], "oracle": found[1][2]})
                    chk.violation("impl-counterexample", body, found_input=True)
                else:
                    body["correspondence"] = "model %s (BS.Model) vs implementation: observations differ, oracle accepts" % pid
                    chk.violation("tie-T1-broken", body, found_input=False)
        chk.cov.setdefault("failing_cases", 0)
        chk.cov["failing_cases"] += nfail


def replay(mod, path):
    d = json.load(open(path))
    with vlib.WorkCopy(mod.PID) as wc:
        wc.build()
        wc.build_harness()
        (o, m, orc, same) = run_cases(wc, mod.PID, [d["case"]], sub=d.get("sub"))[0]
    print("case   :", d["case"])
    print("impl   :", o)
    print("model  :", m)
    print("oracle :", orc)
    if orc != "ok" or not same:
        print("VIOLATION property=%s replay=%s" % (mod.PID, path))
        return 1
    print("OK (the replayed case no longer fails)")
    return 0


def main():
    ap = argparse.ArgumentParser()
    ap.add_argument("pid")
    ap.add_argument("--tier", default=os.environ.get("VERIF_TIER", "quick"))
    ap.add_argument("--replay")
    a = ap.parse_args()
    mod = importlib.import_module("props." + a.pid.lower())
    CASE_LIMIT.update(getattr(mod, "CASE_LIMIT", {}))
    if a.replay:
        sys.exit(replay(mod, a.replay))
    seed = vlib.seed_from_env()
    chk = vlib.Check(a.pid, a.tier, seed)
    chk.cov["trusted_base"] = list(vlib.BASE_TRUST) + list(getattr(mod, "TRUST", []))
    chk.assumptions = list(getattr(mod, "ASSUMPTIONS", []))
    chk.cov["rule"] = getattr(mod, "RULE", "")
    try:
        vlib.proofs_step(chk, a.pid, getattr(mod, "EXTRA_TARGETS", ()))
        with vlib.WorkCopy(a.pid) as wc:
            try:
                wc.build()
                wc.build_harness()
            except vlib.BuildError as e:
                # the tree no longer builds with the harness: the tie cannot be established
                chk.violation(
                    "tie-T1-broken",
                    {"correspondence": "harness build against /repo working tree", "error": str(e)[-3000:]},
                    found_input=False,
                )
            else:
                if hasattr(mod, "t2"):
                    mod.t2(chk, wc, a.tier, seed)
                if hasattr(mod, "custom"):
                    mod.custom(chk, wc, a.tier, seed)
                if hasattr(mod, "gen"):
                    generic_t1(chk, wc, mod, a.tier, seed)
    except Exception as e:  # machinery failure must not look like a pass
        import traceback

        traceback.print_exc()
        chk.violation("proof-broken", {"theorem": "check machinery", "error": repr(e)}, found_input=False)
    if "exhaustive" in chk.cov and not chk.cov["exhaustive"]:
        del chk.cov["exhaustive"]
    sys.exit(chk.finish("proof"))


if __name__ == "__main__":
    main()
