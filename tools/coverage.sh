#!/bin/bash
# coverage.sh [tier] [ids...]   a survey, not a check: runs the checks with a coverage-instrumented harness and lists the functions
# of the repository that the generated cases reach least (where a change would be invisible to tie T1).
tier=${1:-quick}; shift
ids=${@:-C01 C02 C03 C04 C05 C06 C07 C08 C09 C10 C11 C12 C13 C14 C15 C16 C17 C18 C19 C20}
D=$(mktemp -d /var/tmp/verif-cover-XXXXXX)
mkdir -p $D/cov $D/out
cd /verif
for id in $ids; do
  VERIF_COVERDIR=$D/cov VERIF_OUT=$D/out python3 tools/check.py $id --tier $tier 2>&1 | tail -1 | cut -c1-120
done
export GOFLAGS=-mod=mod GOPROXY=off GOSUMDB=off GOTOOLCHAIN=local
go tool covdata func -i=$D/cov 2>/dev/null | grep -v "zz_bsharness\|zz_verif" | sort -t$'\t' -k3 -n > /verif/.cache/coverage-func.txt
go tool covdata textfmt -i=$D/cov -o /verif/.cache/coverage.txt 2>/dev/null
echo "functions: $(wc -l < /verif/.cache/coverage-func.txt)   (lowest first in .cache/coverage-func.txt; line detail in .cache/coverage.txt)"
rm -rf $D
