#!/bin/bash
# MANIFEST.setup_cmd: build the framework from files on disk only (offline).
set -euo pipefail
cd "$(dirname "$0")/.."
export GOFLAGS=-mod=mod GOPROXY=off GOSUMDB=off GOTOOLCHAIN=local
tools/mkshims.sh
(cd lean && lake build BS bsdriver 2>&1 | tail -5)
# warm the Go build cache with a throw-away work copy
python3 - <<'PY'
import sys
sys.path.insert(0, "tools")
import vlib
with vlib.WorkCopy("setup") as wc:
    wc.build()
    wc.build_harness()
print("harness builds")
PY
